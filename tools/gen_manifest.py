#!/usr/bin/env python3
"""Regenerate MANIFEST.json from props/registry.py (so the two never drift)."""
import json
import os
import sys

HERE = os.path.dirname(os.path.dirname(os.path.abspath(__file__)))
sys.path.insert(0, HERE)
from props.registry import PROPS, NOT_APPLICABLE  # noqa

BASE = "cd /repo && /venv/bin/python -m pytest -ra -q -p no:cacheprovider --timeout=900 --continue-on-collection-errors"
checks = []
for pid in sorted(PROPS):
    P = PROPS[pid]
    checks.append({
        "property_id": pid,
        "quick_cmd": f"./check {pid} --tier quick",
        "thorough_cmd": f"./check {pid} --tier thorough",
        "evidence_file": f"evidence/{pid}.json",
        "replay_cmd_template": f"./check {pid} --replay {{path}}",
        "engine": "pyvc",
        "level_claimed": {"category": P["level"], "text": P["claim"] if "claim" in P else P["explanation"], "design_ref": "DESIGN.md section " + P["design"]},
        "level_note": P.get("note", "bounded stand-in only so far: enumerated run-time contract checking of the real functions; nothing counted as proved"),
        "technique": P["technique"],
    })
m = {
    "version": 1,
    "setup_cmd": "./tools/setup.sh",
    "hooks": {"guard": "DSW_VERIF", "enable": "none needed: contracts are sidecars keyed by qualified function name, /repo is read (ast) and imported unmodified",
              "baseline_off_cmd": BASE, "source_commits": [], "add_only": True},
    "engines": [{"name": "pyvc", "path": "pyvc/", "serves_properties": sorted(PROPS),
                 "kind_free_text": "contract-based deductive verification: home-made VC generator over the ast of the real /repo/dsw functions, "
                                   "sidecar contracts in contracts/, obligations discharged by z3 (cvc5 for z3's unknowns); bounded stand-in: "
                                   "enumerated run-time contract checking (bounded/)"}],
    "checks": checks,
    "not_applicable": [{"property_id": k, "reason": v} for k, v in sorted(NOT_APPLICABLE.items())],
    "notes": "Genuine defects of the pinned tree repaired by 'fix:' commits in /repo are listed in known_findings.json (status fixed); one open known finding (C02 constructor clause).",
}
json.dump(m, open(os.path.join(HERE, "MANIFEST.json"), "w"), indent=1)
print("MANIFEST.json written:", len(checks), "checks")
