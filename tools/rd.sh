#!/bin/bash
# developer helper: run one bounded driver and summarise.  usage: tools/rd.sh DRIVER [tier]
cd "$(dirname "$0")/.." && PYTHONPATH=${REPO:-/repo}:$PWD timeout 3000 /venv/bin/python -m bounded.common $1 --tier ${2:-quick} | python3 -c "
import json,sys,collections; r=json.load(sys.stdin); print(r['driver'], 'evals',r['evaluations'], 'nt',r['distinct_nontrivial'], 'wall',r['wall_s'], 'fails',len(r['failures']), r['crashed'][:1]); c=collections.Counter(f['fingerprint'] for f in r['failures']); print(c); 
seen=set()
for f in r['failures']:
    if f['fingerprint'] not in seen: seen.add(f['fingerprint']); print('  ',f['message'][:500])"
