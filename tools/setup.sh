#!/bin/bash
# Nothing to build: only verify that the tools the checks need are present (offline).
set -e
cd "$(dirname "$0")/.."
command -v python3-vt >/dev/null
test -x /venv/bin/python
python3-vt -c "import z3, numpy; assert z3.get_version() >= (4, 8)"
command -v cvc5 >/dev/null || echo "warning: cvc5 CLI missing (z3 only)"
mkdir -p evidence replays
echo setup ok
