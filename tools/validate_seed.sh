#!/bin/bash
# usage: tools/validate_seed.sh <src dir with patch.diff demo.py meta.json> <seed id e.g. C15-a>
# confirms: demo exits 0 on HEAD; with the patch the 30 tests pass and the demo exits non-zero.  Then stores it under seeded/<id>/.
src=$(realpath "$1"); id="$2"
here="$(cd "$(dirname "$0")/.." && pwd)"
d=$(mktemp -d /tmp/seedval.XXXXXX)
trap 'rm -rf "$d"' EXIT
git -C /repo archive HEAD | tar -x -C "$d"
cd "$d"
PYTHONPATH="$d" timeout 600 /venv/bin/python "$src/demo.py" >/dev/null 2>&1; r0=$?
git init -q . 2>/dev/null; git apply "$src/patch.diff" || { echo "$id: patch does not apply"; exit 1; }
PYTHONPATH="$d" timeout 600 /venv/bin/python "$src/demo.py" >"$d/demo.out" 2>&1; r1=$?
tests=$(PYTHONPATH="$d" timeout 1500 /venv/bin/python -m pytest -q -p no:cacheprovider --timeout=900 2>&1 | tail -1)
echo "$id: demo on HEAD exit $r0; demo with patch exit $r1; tests: $tests"
if [ "$r0" = "0" ] && [ "$r1" != "0" ] && echo "$tests" | grep -q "30 passed"; then
  mkdir -p "$here/seeded/$id"
  cp "$src/patch.diff" "$src/demo.py" "$here/seeded/$id/"
  python3 - "$src/meta.json" "$here/seeded/$id/meta.json" "$r0" "$r1" "$tests" <<'PY'
import json,sys
m=json.load(open(sys.argv[1]))
m["confirmed"]={"demo_exit_on_HEAD":int(sys.argv[3]),"demo_exit_with_patch":int(sys.argv[4]),"test_suite_with_patch":sys.argv[5],
                "how":"tools/validate_seed.sh: scratch export of /repo HEAD, demo, git apply, demo, full pytest"}
json.dump(m,open(sys.argv[2],"w"),indent=1)
PY
  echo "$id: KEPT"
else
  echo "$id: REJECTED"
fi
