#!/bin/bash
# usage: tools/run_seeds.sh [seed ids...]   -- runs the quick check of each seed's property on a scratch copy of /repo with the seed applied
# and records whether it was caught (exit 1 + VIOLATION line).  Output: seeded/RESULTS.tsv
cd "$(dirname "$0")/.."
ids="$@"; [ -z "$ids" ] && ids=$(ls seeded | grep -v RESULTS)
for id in $ids; do
  prop=${id%%-*}
  t0=$(date +%s)
  out=$(VERIF_EVIDENCE_DIR=/tmp/ev_seed_$$ tools/with_patch.sh seeded/$id/patch.diff ./check $prop 2>&1); rc=$?; rm -rf /tmp/ev_seed_$$
  t1=$(date +%s)
  viol=$(echo "$out" | grep -c "^VIOLATION property=$prop")
  how=$(echo "$out" | grep -E "failed obligation|failing input" | head -3 | cut -c1-200 | tr '\n' '|')
  echo -e "$id\t$prop\texit=$rc\tviolations=$viol\t$((t1-t0))s\t$how" | tee -a seeded/RESULTS.tsv
done
