#!/usr/bin/env python3
"""regenerates the seed table of DESIGN.md section 12.4 (between the markers) from seeded/*/meta.json and the LAST line per seed of seeded/RESULTS.tsv."""
import json, os, re, glob
here = os.path.dirname(os.path.dirname(os.path.abspath(__file__)))
last = {}
for line in open(os.path.join(here, "seeded", "RESULTS.tsv")):
    f = line.rstrip("\n").split("\t")
    if len(f) >= 5:
        last[f[0]] = f
rows = ["| seed | property | what the change does | caught by | tier |", "|---|---|---|---|---|"]
missed = []
for d in sorted(glob.glob(os.path.join(here, "seeded", "C*-*"))):
    sid = os.path.basename(d)
    m = json.load(open(os.path.join(d, "meta.json")))
    what = re.sub(r"\s+", " ", m.get("summary", m.get("description", "")))[:150].replace("|", "/")
    r = last.get(sid)
    if r is None:
        rows.append(f"| {sid} | {m.get('property', sid[:3])} | {what} | (not run) | |")
        continue
    how = r[5] if len(r) > 5 else ""
    tiers = []
    ob = re.search(r"failed obligation ([^ ]+?):? ", how)
    fp = re.search(r"failing input \(([^)]+)\)", how)
    if ob:
        tiers.append("proof")
    if fp or "real failing input" in how:
        tiers.append("bounded" if fp else "proof+replay")
    caught = r[2] == "exit=1" and r[3] != "violations=0"
    if not caught:
        missed.append(sid)
    by = ("obligation `%s`" % ob.group(1).rstrip(":") if ob else "") + (" / " if ob and fp else "") + ("run-time contract `%s`" % fp.group(1) if fp else "")
    rows.append(f"| {sid} | {r[1]} | {what} | {by if caught else 'MISSED'} | {', '.join(tiers)} |")
txt = "\n".join(rows) + f"\n\n{len(rows) - 2} seeds, {len(rows) - 2 - len(missed)} reported by the current checks" + (f"; missed: {', '.join(missed)}" if missed else "") + ".\n"
p = os.path.join(here, "DESIGN.md")
s = open(p).read()
a, b = "<!-- SEED-TABLE-BEGIN -->", "<!-- SEED-TABLE-END -->"
if a in s:
    s = s[:s.index(a) + len(a)] + "\n" + txt + s[s.index(b):]
    open(p, "w").write(s)
print(txt[-300:])
