#!/bin/bash
# usage: tools/with_patch.sh <patch.diff> <command ...>   -- runs command with REPO=<scratch copy of /repo + patch>, removes the copy
set -e
patch=$(realpath "$1"); shift
d=$(mktemp -d /tmp/scratch_repo.XXXXXX)
trap 'rm -rf "$d"' EXIT
git -C /repo archive HEAD | tar -x -C "$d"
( cd "$d" && git init -q . 2>/dev/null && git apply "$patch" )
REPO="$d" "$@"
