#!/bin/bash
# usage: tools/run_refactors.sh <refactor id> <property ids...>  -- behaviour-preserving refactorings (refactors/<id>/patch.diff) must NOT raise an alarm:
# every listed quick check must exit 0 without a VIOLATION line on a scratch copy of /repo with the patch applied.  Output: refactors/RESULTS.tsv
cd "$(dirname "$0")/.."
id=$1; shift
for prop in "$@"; do
  t0=$(date +%s)
  out=$(VERIF_EVIDENCE_DIR=/tmp/ev_refactor tools/with_patch.sh refactors/$id/patch.diff ./check $prop 2>&1); rc=$?
  t1=$(date +%s)
  viol=$(echo "$out" | grep -c "^VIOLATION")
  und=$(echo "$out" | grep -c "^UNDECIDED")
  summary=$(echo "$out" | grep -E "^VIOLATION|^CHECKER-ERROR|failed obligation|failing input" | head -2 | cut -c1-200 | tr '\n' '|')
  echo -e "$id\t$prop\texit=$rc\tviolations=$viol\tunbound-or-undecided=$und\t$((t1-t0))s\t$summary" | tee -a refactors/RESULTS.tsv
done
rm -rf /tmp/ev_refactor
