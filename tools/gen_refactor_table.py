#!/usr/bin/env python3
"""regenerates the refactoring table of DESIGN.md section 12.5 from refactors/RESULTS.tsv (last line per (refactoring, property))."""
import os, collections
here = os.path.dirname(os.path.dirname(os.path.abspath(__file__)))
last = collections.OrderedDict()
for line in open(os.path.join(here, "refactors", "RESULTS.tsv")):
    f = line.rstrip("\n").split("\t")
    if len(f) >= 6:
        last[(f[0], f[1])] = f
by = collections.OrderedDict()
for (rid, prop), f in last.items():
    by.setdefault(rid, []).append(f)
rows = ["| refactoring | quick checks run (exit code; units that no longer bind) | VIOLATION lines |", "|---|---|---|"]
alarms = 0
for rid, fs in by.items():
    cells = ", ".join(f"{f[1]} ({f[2].split('=')[1]}; {f[4].split('=')[1]})" for f in fs)
    v = sum(int(f[3].split("=")[1]) for f in fs)
    alarms += v + sum(1 for f in fs if f[2] != "exit=0")
    rows.append(f"| {rid} | {cells} | {v} |")
txt = "\n".join(rows) + f"\n\n{len(by)} refactorings, {len(last)} check runs, {alarms} alarms.\n"
p = os.path.join(here, "DESIGN.md")
s = open(p).read()
a, b = "<!-- REFACTOR-TABLE-BEGIN -->", "<!-- REFACTOR-TABLE-END -->"
s = s[:s.index(a) + len(a)] + "\n" + txt + s[s.index(b):]
open(p, "w").write(s)
print(txt[-200:])
