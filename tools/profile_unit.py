#!/usr/bin/env python3-vt
"""developer helper: run one unit in-process with short timeouts, print every obligation as it is decided, dump slow ones."""
import os, sys, time
sys.path.insert(0, os.path.dirname(os.path.dirname(os.path.abspath(__file__))))
from pyvc.registry import Registry
from pyvc import engine
from pyvc.engine import Exec

name = sys.argv[1]
tmo = int(sys.argv[2]) if len(sys.argv) > 2 else 5000
dump = sys.argv[3] if len(sys.argv) > 3 else None
reg = Registry(os.environ.get("REPO", "/repo"))
c = reg.contracts[name]
import json
ex = Exec(name, reg.function_ast(c.get("function", name)), c, reg, split=json.loads(os.environ.get("SPLIT", "{}")))
ex.z3_timeout_ms, ex.cvc5_timeout_s, ex.retries = tmo, 0, 1
orig = ex.prove
def prove(st, nm, goal, line=None):
    n0 = len(ex.results)
    t = time.time()
    if dump:
        os.environ["PYVC_DUMP"] = dump
    orig(st, nm, goal, line)
    for r in ex.results[n0:]:
        print(f"{r.status:11s} {r.seconds:7.2f}s {r.name} (line {r.line})", flush=True)
ex.prove = prove
t0 = time.time()
ex.run()
print("done", len(ex.results), "obligations", round(time.time() - t0, 1), "s; not discharged:", sum(1 for r in ex.results if r.status != "discharged"))
