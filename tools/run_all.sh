#!/bin/bash
# run every registered quick check (regenerates evidence/); prints one line per property
cd "$(dirname "$0")/.."
tier=${1:-quick}
for p in C01 C02 C03 C04 C05 C06 C07 C08 C09 C10 C11 C12 C13 C14 C15 C16 C18 C19 C20; do
  t0=$(date +%s); out=$(./check $p --tier $tier 2>&1); rc=$?; t1=$(date +%s)
  echo "$p exit=$rc $((t1-t0))s undecided-lines=$(echo "$out" | grep -c '^UNDECIDED') $(echo "$out" | grep -v WARNING | tail -1 | cut -c1-200)"
done
