"""C20: static frame / purity / verbose-shape obligations over EVERY public function of dsw/{operation,graphized,spiderweb}.py.

A flow-sensitive may-alias analysis of the real ASTs (re-read on every run).  For each function:
  frame    - every store (x[i] = .., x[i] op= .., del x[i], x.append/insert/.., shuffle(x), x.attr = ..) must target an object allocated in the
             current call: the target name must not may-alias a parameter.  numpy views (a[i], a[i:j], a.T, a.reshape, iteration over a 2-D array)
             alias their base; copies (fancy / boolean-mask indexing, .tolist(), list(), array(), arithmetic, any call result) do not.
             Rebinding a parameter name is not a store.  Documented in-place functions are listed in MODIFIES.
  purity   - no global / nonlocal, no read of module-level mutable state, no module attribute assignment; the global numpy generator is touched
             only by the two documented randomised calls.
  verbose  - a block guarded by `verbose` contains only print(..) / monitor(..) expression statements: it defines no variable, and has no
             return / raise / break / continue - so turning progress output on cannot change a result (that it cannot RAISE is left to the
             bounded tier and to the Monitor call-site obligations of the contracts).
An obligation that holds is 'discharged' (backend 'static'); one that does not is 'failed' with the offending line.
"""
import ast

MODULES = ["operation", "graphized", "spiderweb"]
MODIFIES = {"dsw.spiderweb.remove_nasty_arc": {"accessor", "latter_map"}}          # documented to work in place
RANDOMISED = {"dsw.spiderweb.create_random_shuffles", "dsw.graphized.approximate_capacity"}
MUTATORS = {"append", "insert", "extend", "pop", "remove", "sort", "reverse", "clear", "add", "discard", "update", "setdefault", "popitem",
            "fill", "resize", "put", "itemset", "sort"}
VIEW_ATTRS = {"T", "flat", "real", "imag"}
VIEW_METHODS = {"reshape", "view", "ravel", "transpose", "squeeze", "swapaxes"}
INPLACE_RETURNS = {"remove_nasty_arc"}      # calls whose results alias their arguments


class Result:
    def __init__(self, name, ok, line, detail=""):
        self.name, self.ok, self.line, self.detail = name, ok, line, detail

    def as_dict(self):
        return dict(name=self.name, status="discharged" if self.ok else "failed", backend="static", seconds=0.0, line=self.line, detail=self.detail)


class FrameAnalysis(ast.NodeVisitor):
    def __init__(self, qual, fn, module_mutables):
        self.qual, self.fn, self.module_mutables = qual, fn, module_mutables
        self.results = []
        self.params = [a.arg for a in fn.args.args + fn.args.kwonlyargs] + ([fn.args.vararg.arg] if fn.args.vararg else []) + \
                      ([fn.args.kwarg.arg] if fn.args.kwarg else [])
        self.allowed = MODIFIES.get(qual, set())
        self.n = 0

    # alias[name] = set of parameter names the object bound to `name` may share memory with
    def aliases_of(self, e, env):
        if isinstance(e, ast.Name):
            return set(env.get(e.id, set()))
        if isinstance(e, ast.Subscript):
            base = self.aliases_of(e.value, env)
            sl = e.slice
            # basic indexing (int / slice / tuple of those) of an ndarray is a view; indexing with a name or a call may be fancy (copy) -
            # conservatively a view unless the index is syntactically a comparison (boolean mask) or a list
            if isinstance(sl, (ast.Compare, ast.List, ast.ListComp)):
                return set()
            return base
        if isinstance(e, ast.Attribute):
            if e.attr in VIEW_ATTRS:
                return self.aliases_of(e.value, env)
            return self.aliases_of(e.value, env) if isinstance(e.value, ast.Name) and e.value.id == "self" else set()
        if isinstance(e, ast.Call):
            f = e.func
            if isinstance(f, ast.Attribute) and f.attr in VIEW_METHODS:
                return self.aliases_of(f.value, env)
            if isinstance(f, ast.Name) and f.id in INPLACE_RETURNS:
                out = set()
                for a in list(e.args) + [k.value for k in e.keywords]:
                    out |= self.aliases_of(a, env)
                return out
            if isinstance(f, ast.Name) and f.id in ("enumerate", "zip", "reversed", "iter"):
                out = set()
                for a in e.args:
                    out |= self.aliases_of(a, env)
                return out
            return set()          # any other call result is a fresh object
        if isinstance(e, (ast.Tuple, ast.List)):
            out = set()
            for x in e.elts:
                out |= self.aliases_of(x, env)
            return out
        if isinstance(e, ast.IfExp):
            return self.aliases_of(e.body, env) | self.aliases_of(e.orelse, env)
        if isinstance(e, ast.BoolOp):
            out = set()
            for x in e.values:
                out |= self.aliases_of(x, env)
            return out
        return set()

    def bind(self, tgt, al, env):
        if isinstance(tgt, ast.Name):
            env[tgt.id] = set(al)
        elif isinstance(tgt, (ast.Tuple, ast.List)):
            for t in tgt.elts:
                self.bind(t, al, env)
        elif isinstance(tgt, ast.Starred):
            self.bind(tgt.value, al, env)

    def store(self, base_expr, env, line, what):
        b = base_expr
        while isinstance(b, (ast.Subscript, ast.Attribute)):
            if isinstance(b, ast.Attribute) and isinstance(b.value, ast.Name) and b.value.id == "self":
                b = b.value
                break
            b = b.value
        al = self.aliases_of(base_expr if isinstance(base_expr, ast.Name) else b, env) if isinstance(b, ast.Name) else set()
        # a store through x[i][j] reaches whatever x[i] is a view of
        if isinstance(base_expr, ast.Subscript):
            al |= self.aliases_of(base_expr, env)
        bad = sorted(p for p in al if p not in self.allowed and p != "self")
        self.n += 1
        self.results.append(Result(f"{self.qual}:frame:{what}@{line}", not bad, line,
                                   "" if not bad else f"{what} at line {line} may write into parameter(s) {bad}: an argument would be modified"))

    def run_block(self, stmts, env):
        for s in stmts:
            env = self.run_stmt(s, env)
        return env

    def join(self, a, b):
        out = {}
        for k in set(a) | set(b):
            out[k] = set(a.get(k, set())) | set(b.get(k, set()))
        return out

    def run_stmt(self, s, env):
        if isinstance(s, ast.Assign):
            self.scan_calls(s.value, env)
            for t in s.targets:
                if isinstance(t, (ast.Tuple, ast.List)) and isinstance(s.value, (ast.Tuple, ast.List)) and len(t.elts) == len(s.value.elts):
                    als = [self.aliases_of(v, env) for v in s.value.elts]          # a, b = x, y binds pairwise
                    for tt, al in zip(t.elts, als):
                        self.check_target(tt, env, s.lineno, al)
                else:
                    self.check_target(t, env, s.lineno, self.aliases_of(s.value, env))
            return env
        if isinstance(s, ast.AugAssign):
            if isinstance(s.target, ast.Name):
                # x += y on a list/ndarray mutates in place: a store into whatever x aliases
                if env.get(s.target.id):
                    self.store(s.target, env, s.lineno, "augmented-assignment")
            else:
                self.store(s.target.value if isinstance(s.target, ast.Subscript) else s.target, env, s.lineno, "augmented-store")
            return env
        if isinstance(s, ast.AnnAssign) and s.value is not None:
            self.check_target(s.target, env, s.lineno, self.aliases_of(s.value, env))
            return env
        if isinstance(s, ast.Delete):
            for t in s.targets:
                if isinstance(t, ast.Subscript):
                    self.store(t.value, env, s.lineno, "del")
            return env
        if isinstance(s, ast.Expr):
            self.scan_calls(s.value, env)
            return env
        if isinstance(s, (ast.For, ast.AsyncFor)):
            self.scan_calls(s.iter, env)
            al = self.aliases_of(s.iter, env)
            for _ in range(2):
                body_env = dict(env)
                self.bind(s.target, al, body_env)
                saved = len(self.results)
                out = self.run_block(s.body, body_env)
                env2 = self.join(env, out)
                if env2 == env:
                    break
                del self.results[saved:]
                env = env2
            return self.run_block(s.orelse, env)
        if isinstance(s, ast.While):
            self.scan_calls(s.test, env)
            for _ in range(2):
                saved = len(self.results)
                out = self.run_block(s.body, dict(env))
                env2 = self.join(env, out)
                if env2 == env:
                    break
                del self.results[saved:]
                env = env2
            return self.run_block(s.orelse, env)
        if isinstance(s, ast.If):
            self.scan_calls(s.test, env)
            a = self.run_block(s.body, dict(env))
            b = self.run_block(s.orelse, dict(env))
            return self.join(a, b)
        if isinstance(s, ast.Try):
            e1 = self.run_block(s.body, dict(env))
            for h in s.handlers:
                e1 = self.join(e1, self.run_block(h.body, dict(env)))
            e1 = self.run_block(s.orelse, e1)
            return self.run_block(s.finalbody, e1)
        if isinstance(s, ast.With):
            return self.run_block(s.body, env)
        if isinstance(s, (ast.Return, ast.Raise)):
            if getattr(s, "value", None) is not None:
                self.scan_calls(s.value, env)
            return env
        if isinstance(s, (ast.Global, ast.Nonlocal)):
            self.results.append(Result(f"{self.qual}:purity:no-global@{s.lineno}", False, s.lineno, f"`{type(s).__name__.lower()} {', '.join(s.names)}`: module-level state"))
            return env
        return env

    def check_target(self, t, env, line, al):
        if isinstance(t, ast.Name):
            env[t.id] = set(al)
        elif isinstance(t, (ast.Tuple, ast.List)):
            for x in t.elts:
                self.check_target(x, env, line, al)
        elif isinstance(t, ast.Subscript):
            self.store(t.value, env, line, "store")
        elif isinstance(t, ast.Attribute):
            if isinstance(t.value, ast.Name) and t.value.id == "self":
                return          # a method initialising / updating its own receiver
            self.store(t.value, env, line, "attribute-store")

    def scan_calls(self, e, env):
        for c in ast.walk(e):
            if isinstance(c, ast.Call):
                f = c.func
                if isinstance(f, ast.Attribute) and f.attr in MUTATORS:
                    self.store(f.value, env, c.lineno, f"call-of-{f.attr}")
                if isinstance(f, ast.Attribute) and f.attr == "shuffle":
                    for a in c.args:
                        self.store(a, env, c.lineno, "shuffle")
                if isinstance(f, ast.Attribute) and isinstance(f.value, ast.Name) and f.value.id == "random" and self.qual not in RANDOMISED:
                    self.results.append(Result(f"{self.qual}:purity:no-random@{c.lineno}", False, c.lineno,
                                               "use of the global random generator outside the two documented randomised calls"))
                if isinstance(f, ast.Name) and f.id in ("open", "exec", "eval", "input", "setattr", "globals", "vars"):
                    self.results.append(Result(f"{self.qual}:purity:no-{f.id}@{c.lineno}", False, c.lineno, f"call of {f.id}()"))
                if isinstance(f, ast.Name) and f.id in INPLACE_RETURNS or isinstance(f, ast.Name) and MODIFIES.get("dsw.spiderweb." + f.id):
                    # passing an argument of ours to a function documented to work in place modifies it
                    for a in list(c.args) + [k.value for k in c.keywords]:
                        al = self.aliases_of(a, env)
                        bad = sorted(p for p in al if p not in self.allowed)
                        if bad:
                            self.results.append(Result(f"{self.qual}:frame:passes-parameter-to-in-place-callee@{c.lineno}", False, c.lineno,
                                                       f"parameter(s) {bad} handed to {f.id}, which works in place"))

    def analyse(self):
        env = {p: {p} for p in self.params}
        self.run_block(self.fn.body, env)
        # purity: module-level mutable state
        assigned = {x.id for x in ast.walk(self.fn) if isinstance(x, ast.Name) and isinstance(x.ctx, (ast.Store, ast.Del))} | set(self.params)
        for x in ast.walk(self.fn):
            if isinstance(x, ast.Name) and isinstance(x.ctx, ast.Load) and x.id in self.module_mutables and x.id not in assigned:
                self.results.append(Result(f"{self.qual}:purity:reads-module-level-mutable-state:{x.id}@{x.lineno}", False, x.lineno,
                                           f"`{x.id}` is module-level mutable state (assigned at line {self.module_mutables[x.id]})"))
        if not any(":purity:" in r.name for r in self.results):
            self.results.append(Result(f"{self.qual}:purity:no-module-state", True, self.fn.lineno))
        # verbose blocks
        bad = []
        for node in ast.walk(self.fn):
            if isinstance(node, ast.If) and any(isinstance(n, ast.Name) and n.id == "verbose" for n in ast.walk(node.test)):
                for st in node.body:
                    for sub in ast.walk(st):
                        if isinstance(sub, (ast.Assign, ast.AugAssign, ast.AnnAssign, ast.Return, ast.Raise, ast.Break, ast.Continue, ast.Delete,
                                            ast.Global, ast.NamedExpr)) or (isinstance(sub, ast.Call) and isinstance(sub.func, ast.Attribute)
                                                                            and sub.func.attr in MUTATORS):
                            # nested progress conditions (if quotient != "0": monitor(..)) are fine; anything that binds or leaves is not
                            bad.append((sub.lineno, type(sub).__name__))
        if "verbose" in self.params:
            self.results.append(Result(f"{self.qual}:verbose:progress-blocks-only-print", not bad, self.fn.lineno,
                                       "" if not bad else f"a block guarded by `verbose` binds a variable or leaves the block: {bad[:3]}"))
        if not self.n:
            self.results.append(Result(f"{self.qual}:frame:no-stores", True, self.fn.lineno))
        return self.results


def module_mutables(tree):
    mutables = {}
    for node in tree.body:
        targets, value = [], None
        if isinstance(node, ast.Assign):
            targets, value = node.targets, node.value
        elif isinstance(node, ast.AnnAssign) and node.value is not None:
            targets, value = [node.target], node.value
        for t in targets:
            if isinstance(t, ast.Name) and not (isinstance(value, ast.Constant) and isinstance(value.value, (str, int, float, bool, type(None)))):
                mutables[t.id] = node.lineno
    return mutables


def analyse_repo(registry):
    out = []
    functions = []
    own = {m: module_mutables(registry.tree[m]) for m in MODULES}
    fn_nodes = {}
    for m in MODULES:
        tree = registry.tree[m]
        mutables = dict(own[m])
        for node in tree.body:          # `from dsw.<other> import <mutable object>`: the imported name is the same shared object
            if isinstance(node, ast.ImportFrom) and node.module and node.module.startswith("dsw."):
                src = node.module.split(".", 1)[1]
                for a in node.names:
                    if src in own and a.name in own[src]:
                        mutables[a.asname or a.name] = node.lineno
        for node in tree.body:
            if isinstance(node, ast.FunctionDef):
                q = f"dsw.{m}.{node.name}"
                fa = FrameAnalysis(q, node, mutables)
                out += fa.analyse()
                functions.append(q)
                fn_nodes[q] = node
                # decorators that keep state between calls (caches) break 'fresh process' equivalence
                for d in node.decorator_list:
                    name = ast.unparse(d)
                    if any(k in name for k in ("cache", "memo", "lru")):
                        out.append(Result(f"{q}:purity:stateful-decorator@{node.lineno}", False, node.lineno, f"decorator {name} keeps results between calls"))
    # purity is inherited along calls inside the package: a function that calls an impure library function is impure as well
    by_name = {q.rsplit(".", 1)[1]: q for q in functions}
    calls = {q: {by_name[c.func.id] for c in ast.walk(n) if isinstance(c, ast.Call) and isinstance(c.func, ast.Name) and c.func.id in by_name} - {q}
             for q, n in fn_nodes.items()}
    impure = {q for q in functions if any(r.name.startswith(q + ":purity:") and not r.ok for r in out)}
    reported = set()
    changed = True
    while changed:
        changed = False
        for q in functions:
            for callee in sorted(calls[q] & impure):
                if (q, callee) not in reported:
                    reported.add((q, callee))
                    out.append(Result(f"{q}:purity:calls-impure-function:{callee.rsplit('.', 1)[1]}", False, fn_nodes[q].lineno,
                                      f"{callee} keeps or reads state between calls (see its own purity obligation)"))
                    if q not in impure:
                        impure.add(q)
                        changed = True
    return out, functions
