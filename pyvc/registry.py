"""Loads the sidecar contracts (contracts/*.py), locates the REAL function ASTs in $REPO/dsw on every run, builds lemma axioms."""
import ast
import hashlib
import importlib
import os

MODULES = ["operation", "graphized", "spiderweb", "biofilter"]


class Registry:
    def __init__(self, repo):
        self.repo = repo
        self.src = {}
        self.tree = {}
        self.funcs = {}
        for m in MODULES:
            p = os.path.join(repo, "dsw", m + ".py")
            txt = open(p).read()
            self.src[m] = txt
            t = ast.parse(txt)
            self.tree[m] = t
            self.numpy_names = getattr(self, "numpy_names", {})
            self.numpy_names[m] = {a.asname or a.name for node in t.body if isinstance(node, ast.ImportFrom) and node.module == "numpy"
                                   for a in node.names}
            for node in t.body:
                if isinstance(node, ast.FunctionDef):
                    self.funcs[f"dsw.{m}.{node.name}"] = (m, node)
                elif isinstance(node, ast.ClassDef):
                    for sub in node.body:
                        if isinstance(sub, ast.FunctionDef):
                            self.funcs[f"dsw.{m}.{node.name}.{sub.name}"] = (m, sub)
        self.contracts = {}
        self.lemmas = {}
        for m in MODULES + ["lemmas", "harness"]:
            try:
                mod = importlib.import_module("contracts." + m)
            except ModuleNotFoundError:
                continue
            for c in getattr(mod, "CONTRACTS", []):
                c = dict(c)
                for key in ("requires", "ensures"):
                    v = c.get(key, {})
                    if isinstance(v, list):
                        v = {f"c{i + 1}": x for i, x in enumerate(v)}
                    c[key] = v
                for n, sp in c.get("loops", {}).items():
                    inv = sp.get("invariant", {})
                    if isinstance(inv, list):
                        sp["invariant"] = {f"i{i + 1}": x for i, x in enumerate(inv)}
                c["module"] = m
                self.contracts[c["name"]] = c
            for l in getattr(mod, "LEMMAS", []):
                l = dict(l)
                for key in ("requires", "ensures"):
                    v = l.get(key, {})
                    if isinstance(v, list):
                        v = {f"c{i + 1}": x for i, x in enumerate(v)}
                    l[key] = v
                self.lemmas[l["name"]] = l
                # a lemma is verified like any function: its proof (ghost loop / hints) is the body, its statement the contract
                src = "def %s(%s):\n%s\n    return None\n" % (l["name"], ", ".join(l["params"]),
                                                                 "".join("    " + ln + "\n" for ln in (l.get("proof") or "pass").split("\n")))
                self.funcs["lemma." + l["name"]] = (m, ast.parse(src).body[0])
                self.contracts["lemma." + l["name"]] = dict(name="lemma." + l["name"], module=m, params=l["params"], split=l.get("split", {}),
                                                            requires=l["requires"], ensures=l["ensures"], raises={}, returns="none",
                                                            loops=l.get("loops", {}), lemmas=l.get("uses", []), variant_of="lemma")
            for name, src in getattr(mod, "SOURCE", {}).items():
                # harness / lemma functions written in the same Python subset (not repository code)
                t = ast.parse(src)
                self.funcs[name] = (m, t.body[0])
                self.src.setdefault(m, "")
        self._axiom_cache = {}

    def module_level(self, qualname, name):
        """('constant', node) for a module-level immutable literal, ('mutable', node) for any other module-level assignment, else None."""
        parts = qualname.split(".")
        m = parts[1] if len(parts) > 1 else None
        t = self.tree.get(m)
        if t is None:
            return None
        for node in t.body:
            targets = []
            if isinstance(node, ast.Assign):
                targets, value = node.targets, node.value
            elif isinstance(node, ast.AnnAssign) and node.value is not None:
                targets, value = [node.target], node.value
            for tg in targets:
                if isinstance(tg, ast.Name) and tg.id == name:
                    if isinstance(value, ast.Constant) and isinstance(value.value, (str, int, bool, type(None))):
                        return ("constant", value)
                    return ("mutable", node)
        return None

    def contract_for(self, simple_name):
        hits = [c for n, c in self.contracts.items() if n.split(".")[-1] == simple_name and not c.get("variant_of")]
        return hits[0] if hits else None

    def function_ast(self, qualname):
        if qualname not in self.funcs:
            from pyvc.engine import Unsupported
            raise Unsupported(f"function {qualname} not found in the repository (sidecar no longer binds)")
        return self.funcs[qualname][1]

    def source_info(self, qualname):
        m, node = self.funcs[qualname]
        seg = ast.get_source_segment(self.src[m], node) if self.src.get(m) else None
        if seg is None:
            seg = ast.unparse(node)
        return {"function": qualname, "file": f"dsw/{m}.py" if m in MODULES else f"contracts/{m}.py",
                "lines": [node.lineno, node.end_lineno], "sha256": hashlib.sha256(seg.encode()).hexdigest()[:16]}

    def lemma_axioms(self, name):
        from pyvc import lemmas
        if name not in self._axiom_cache:
            self._axiom_cache[name] = lemmas.axioms_of(self, name)
        return self._axiom_cache[name]
