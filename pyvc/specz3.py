"""SMT counterparts of the spec functions of contracts/specs.py.

Recursive spec functions are uninterpreted functions whose defining equation is unfolded mechanically at every ground
application that occurs in a query (UNFOLD_ROUNDS rounds) - never asserted as a quantified axiom.
"""
import z3

from pyvc.sym import I, A, iv, add, sub, Seq, fresh, lit

UNFOLD_ROUNDS = 2

# pv(arr, delta, lo, hi, base) = value of the digits arr[lo..hi)+delta, most significant first
pv = z3.Function("pv", A, I, I, I, I, I)
# ipow(b, e) = b ** e   (e >= 0)
ipow = z3.Function("ipow", I, I, I)
# cnt(arr, delta, lo, hi, x) = number of positions lo <= p < hi with arr[p]+delta == x
cnt = z3.Function("cnt", A, I, I, I, I, I)
# ssum(arr, delta, lo, hi) = sum of arr[p]+delta for lo <= p < hi
ssum = z3.Function("ssum", A, I, I, I, I)

# codes_of(arr)[i] = code(arr[i]) : the A<C<G<T -> 0..3 map applied point-wise (foreign characters -> -1)
codes_of = z3.Function("codes_of", A, A)


def code_of(c):
    return z3.If(c == 65, iv(0), z3.If(c == 67, iv(1), z3.If(c == 71, iv(2), z3.If(c == 84, iv(3), iv(-1)))))


def codes_axioms():
    """definition of codes_of (point-wise) and its consequence for stores (follows by extensionality)."""
    a, i, v = z3.Const("ca_", A), z3.Int("ci_"), z3.Int("cv_")
    return [z3.ForAll([a, i], codes_of(a)[i] == code_of(a[i]), patterns=[codes_of(a)[i]]),
            z3.ForAll([a, i, v], codes_of(z3.Store(a, i, v)) == z3.Store(codes_of(a), i, code_of(v)), patterns=[codes_of(z3.Store(a, i, v))])]


# succ4(v, j, k) = j-th shift successor of vertex v in the order-k de Bruijn graph = (v mod 4^(k-1)) * 4 + j.  Kept as a function symbol so that
# quantified facts about graphs carry no arithmetic; the arithmetic meaning is available on demand (definition triggered by the term).
succ4 = z3.Function("succ4", I, I, I, I)


def succ_axioms():
    v, j, k = z3.Int("sv_"), z3.Int("sj_"), z3.Int("sk_")
    return [z3.ForAll([v, j, k], succ4(v, j, k) == (v % ipow(4, k - 1)) * 4 + j, patterns=[succ4(v, j, k)])]


# occ(marr, mstart, mlen, sarr, sstart, slen): the string (marr, mstart, mlen) occurs as a substring of (sarr, sstart, slen).  Kept as a predicate
# symbol (substring search is Python's `in`); code and spec both build it from the same terms.
occ = z3.Function("occ", A, I, I, A, I, I, z3.BoolSort())
# deterministic character-wise string operations as array functions (same input term -> same output term)
repl = z3.Function("str_replace", A, I, I, A)        # repl(a, x, y)[i] = y if a[i] == x else a[i]
upper = z3.Function("str_upper", A, A)
rev = z3.Function("str_reverse", A, I, I, A)           # rev(a, start, n)[i] = a[start + n - 1 - i]   (result starts at 0)


def str_axioms():
    a, i, x, y, s0, n = z3.Const("sa_", A), z3.Int("si_"), z3.Int("sx_"), z3.Int("sy_"), z3.Int("ss_"), z3.Int("sn_")
    return [z3.ForAll([a, x, y, i], repl(a, x, y)[i] == z3.If(a[i] == x, y, a[i]), patterns=[repl(a, x, y)[i]]),
            z3.ForAll([a, i], upper(a)[i] == z3.If(z3.And(a[i] >= 97, a[i] <= 122), a[i] - 32, a[i]), patterns=[upper(a)[i]]),
            z3.ForAll([a, s0, n, i], rev(a, s0, n)[i] == a[s0 + n - 1 - i], patterns=[rev(a, s0, n)[i]])]


RECURSIVE = {}


def _def_pv(ap):
    a, d, lo, hi, b = ap.children()
    return z3.And(z3.Implies(hi <= lo, ap == 0),
                  z3.Implies(hi > lo, ap == b * pv(a, d, lo, hi - 1, b) + a[hi - 1] + d))


def _def_ipow(ap):
    b, e = ap.children()
    return z3.And(z3.Implies(e <= 0, ap == 1), z3.Implies(e > 0, ap == b * ipow(b, e - 1)))


def _def_cnt(ap):
    a, d, lo, hi, x = ap.children()
    return z3.And(z3.Implies(hi <= lo, ap == 0),
                  z3.Implies(hi > lo, ap == cnt(a, d, lo, hi - 1, x) + z3.If(a[hi - 1] + d == x, 1, 0)))


def _def_ssum(ap):
    a, d, lo, hi = ap.children()
    return z3.And(z3.Implies(hi <= lo, ap == 0),
                  z3.Implies(hi > lo, ap == ssum(a, d, lo, hi - 1) + a[hi - 1] + d))


# asum(arr, off, lo, hi) = sum of (p - off) over lo <= p < hi with arr[p] < arr[p + 1]   (positions of ascents, VT code)
asum = z3.Function("asum", A, I, I, I, I)


def _def_asum(ap):
    a, off, lo, hi = ap.children()
    return z3.And(z3.Implies(hi <= lo, ap == 0),
                  z3.Implies(hi > lo, ap == asum(a, off, lo, hi - 1) + z3.If(a[hi - 1] < a[hi], hi - 1 - off, 0)))


A2s = z3.ArraySort(I, A)
# walkv(acc, sarr, sstart, v0, p) = vertex reached after the first p characters of the string from v0, or -1 once a step is not a live arc
walkv = z3.Function("walkv", A2s, A, I, I, I, I)


def _def_walkv(ap):
    acc, sarr, s0, v0, p = ap.children()
    prev = walkv(acc, sarr, s0, v0, p - 1)
    c = code_of(sarr[s0 + p - 1])
    return z3.And(z3.Implies(p <= 0, ap == v0),
                  z3.Implies(p > 0, ap == z3.If(z3.Or(prev < 0, c < 0), iv(-1), z3.If(acc[prev][c] >= 0, acc[prev][c], iv(-1)))))


# flocf(acc, sarr, s0, v0, p) = number of message bits the fast scheme has consumed after the first p characters (while they are a walk)
flocf = z3.Function("flocf", A2s, A, I, I, I, I)


def _def_flocf(ap):
    acc, sarr, s0, v0, p = ap.children()
    v = walkv(acc, sarr, s0, v0, p - 1)
    row = acc[v]
    d = z3.If(row[0] >= 0, 1, 0) + z3.If(row[1] >= 0, 1, 0) + z3.If(row[2] >= 0, 1, 0) + z3.If(row[3] >= 0, 1, 0)
    return z3.And(z3.Implies(p <= 0, ap == 0),
                  z3.Implies(p > 0, ap == flocf(acc, sarr, s0, v0, p - 1) + z3.If(v < 0, 0, z3.If(d == 4, 2, z3.If(d == 2, 1, 0)))))


# weights / little-endian mixed-radix value / right Horner value of position-indexed (radix, digit) arrays
wtf = z3.Function("wtf", A, I, I, I)           # wtf(dg, lo, hi) = product of dg[lo..hi)
lvf = z3.Function("lvf", A, A, I, I, I)        # lvf(dg, dd, lo, hi) = sum over q in [lo,hi) of dd[q] * wtf(dg, lo, q)
hvf = z3.Function("hvf", A, A, I, I, I)        # hvf(dg, dd, lo, hi) = dd[lo] + dg[lo] * hvf(dg, dd, lo + 1, hi)


def _def_wtf(ap):
    dg, lo, hi = ap.children()
    return z3.And(z3.Implies(hi <= lo, ap == 1), z3.Implies(hi > lo, ap == wtf(dg, lo, hi - 1) * dg[hi - 1]))


def _def_lvf(ap):
    dg, dd, lo, hi = ap.children()
    return z3.And(z3.Implies(hi <= lo, ap == 0), z3.Implies(hi > lo, ap == lvf(dg, dd, lo, hi - 1) + dd[hi - 1] * wtf(dg, lo, hi - 1)))


def _def_hvf(ap):
    dg, dd, lo, hi = ap.children()
    return z3.And(z3.Implies(hi <= lo, ap == 0), z3.Implies(hi > lo, ap == dd[lo] + dg[lo] * hvf(dg, dd, lo + 1, hi)))


# numpy's global generator as an abstract state machine (C18): seeding fixes the state, every shuffle maps (state, row) to a row and advances
RNG = z3.DeclareSort("RngState")
rng_seeded = z3.Function("rng_seeded", I, RNG)
rng_next = z3.Function("rng_next", RNG, RNG)
rng_shuffle = z3.Function("rng_shuffle4", RNG, I, I, I, I, A)  # the row produced by shuffling the 4-entry row (e0, e1, e2, e3) in this state
rng_at = z3.Function("rng_at", I, I, RNG)                    # rng_at(seed, i) = state after seeding with seed and i shuffles


def _def_rng_at(ap):
    seed, i = ap.children()
    return z3.And(z3.Implies(i <= 0, ap == rng_seeded(seed)), z3.Implies(i > 0, ap == rng_next(rng_at(seed, i - 1))))


RECURSIVE[rng_at.name()] = (rng_at, _def_rng_at)
RECURSIVE[walkv.name()] = (walkv, _def_walkv)
RECURSIVE[flocf.name()] = (flocf, _def_flocf)
RECURSIVE[wtf.name()] = (wtf, _def_wtf)
RECURSIVE[lvf.name()] = (lvf, _def_lvf)
RECURSIVE[hvf.name()] = (hvf, _def_hvf)
RECURSIVE[asum.name()] = (asum, _def_asum)
RECURSIVE[pv.name()] = (pv, _def_pv)
RECURSIVE[ipow.name()] = (ipow, _def_ipow)
RECURSIVE[cnt.name()] = (cnt, _def_cnt)
RECURSIVE[ssum.name()] = (ssum, _def_ssum)


def _has_var(e, cache):
    """does the term mention a bound (de Bruijn) variable?  `cache` lives for one unfold_instances call only (z3 ids are reused after collection)."""
    k = e.get_id()
    if k in cache:
        return cache[k]
    if z3.is_var(e):
        r = True
    elif z3.is_quantifier(e):
        r = True            # conservatively: a term containing a quantifier is not unfolded as a ground application
    else:
        r = any(_has_var(c, cache) for c in e.children())
    cache[k] = r
    return r


def unfold_instances(exprs, rounds=UNFOLD_ROUNDS, extra=None):
    """definitional unfolding of every recursive spec function at every ground application in exprs."""
    table = dict(RECURSIVE)
    if extra:
        table.update(extra)
    seen, out, todo, done_apps = set(), [], list(exprs), set()
    var_cache = {}
    for _ in range(rounds):
        apps = []

        def walk(e):
            stack = [e]
            while stack:
                x = stack.pop()
                if x.get_id() in seen:
                    continue
                seen.add(x.get_id())
                if z3.is_quantifier(x):
                    stack.append(x.body())          # look inside: applications WITHOUT bound variables are ground and are unfolded too
                    continue
                if z3.is_app(x):
                    nm = x.decl().name()
                    if nm in table and x.decl().eq(table[nm][0]) and x.get_id() not in done_apps and not _has_var(x, var_cache):
                        apps.append(x)
                        done_apps.add(x.get_id())
                    stack.extend(x.children())
        for e in todo:
            walk(e)
        todo = []
        for ap in apps:
            ax = table[ap.decl().name()][1](ap)
            out.append(ax)
            todo.append(ax)
        if not apps:
            break
    return out


# ------------------------------------------------------------------ helpers used by the contract language
def seq_pv(s, lo, hi, base):
    """value of elements lo..hi of a Seq whose elements are digits (chars '0'.. or ints)."""
    d = s.delta - (48 if s.elem == "char" else 0)
    return pv(s.arr, iv(d), add(s.start, lo), add(s.start, hi), iv(base) if isinstance(base, int) else base)


def seq_digits(s, lo=None, hi=None, top=9):
    off = 48 if s.elem == "char" else 0
    return s.forall(lambda v: z3.And(v - off >= 0, v - off <= top), lo, hi)


def digit_of(s, j):
    return s.at(j) - (48 if s.elem == "char" else 0)


# ind4(a0, a1, a2, a3)[w] = 1 if w is one of the four values else 0 : the row of an adjacency matrix that belongs to an accessor row (C14)
ind4 = z3.Function("ind4", I, I, I, I, A)


def ind4_axioms():
    a0, a1, a2, a3, w = z3.Ints("i0_ i1_ i2_ i3_ iw_")
    return [z3.ForAll([a0, a1, a2, a3, w], ind4(a0, a1, a2, a3)[w] == z3.If(z3.Or(a0 == w, a1 == w, a2 == w, a3 == w), iv(1), iv(0)),
                      patterns=[ind4(a0, a1, a2, a3)[w]])]


# ------------------------------------------------------------------ C14: leaf queries.  fm = one breadth-first step (flat map of the live successors, in
# A<C<G<T order, over the first i entries of a list b); lev = d steps from a single vertex.  Array-valued, so the defining equations are
# quantified over the position p only and are added per GROUND application (no recursion through a trigger).
fmn = z3.Function("fmn", A2s, A, I, I, I)          # fmn(acc, b, bs, i)  = number of successors of b[bs .. bs+i)
fma = z3.Function("fma", A2s, A, I, I, A)          # fma(acc, b, bs, i)[p] = p-th of them
levn = z3.Function("levn", A2s, I, I, I)           # levn(acc, v, d) = number of d-step walks from v
leva = z3.Function("leva", A2s, I, I, A)           # leva(acc, v, d)[p] = end point of the p-th of them (breadth-first, successor order)


def _rdeg(row):
    return z3.If(row[0] >= 0, 1, 0) + z3.If(row[1] >= 0, 1, 0) + z3.If(row[2] >= 0, 1, 0) + z3.If(row[3] >= 0, 1, 0)


def _rsucc(row, q):
    """the q-th live entry of the row (q < degree)."""
    out = row[3]
    for j in (2, 1, 0):
        before = z3.Sum([z3.If(row[c] >= 0, 1, 0) for c in range(j)]) if j else iv(0)
        out = z3.If(z3.And(row[j] >= 0, before == q), row[j], out)
    return out


def _def_fmn(ap):
    acc, b, bs, i = ap.children()
    return z3.And(z3.Implies(i <= 0, ap == 0), z3.Implies(i > 0, ap == fmn(acc, b, bs, i - 1) + _rdeg(acc[b[bs + i - 1]])))


def _def_fma(ap):
    acc, b, bs, i = ap.children()
    p = z3.Int("p#fma")
    prev_n = fmn(acc, b, bs, i - 1)
    row = acc[b[bs + i - 1]]
    from pyvc.sym import qforall
    return z3.Implies(i > 0, qforall([p], z3.Implies(z3.And(0 <= p, p < fmn(acc, b, bs, i)),
                                                     ap[p] == z3.If(p < prev_n, fma(acc, b, bs, i - 1)[p], _rsucc(row, p - prev_n))), [ap[p]]))


def _def_levn(ap):
    acc, v, d = ap.children()
    return z3.And(z3.Implies(d <= 0, ap == 1), z3.Implies(d > 0, ap == fmn(acc, leva(acc, v, d - 1), iv(0), levn(acc, v, d - 1))))


def _def_leva(ap):
    from pyvc.sym import qforall
    acc, v, d = ap.children()
    p = z3.Int("p#leva")
    return z3.And(z3.Implies(d <= 0, ap[0] == v),
                  z3.Implies(d > 0, qforall([p], z3.Implies(z3.And(0 <= p, p < levn(acc, v, d)),
                                                            ap[p] == fma(acc, leva(acc, v, d - 1), iv(0), levn(acc, v, d - 1))[p]), [ap[p]])))


RECURSIVE[fmn.name()] = (fmn, _def_fmn)
RECURSIVE[fma.name()] = (fma, _def_fma)
RECURSIVE[levn.name()] = (levn, _def_levn)
RECURSIVE[leva.name()] = (leva, _def_leva)


# the position of an occurrence (skolem function of the definition  occ(m, s) <=> exists p. 0 <= p <= |s| - |m| and s[p .. p+|m|) == m )
opos = z3.Function("occ_pos", A, I, I, A, I, I, I)
