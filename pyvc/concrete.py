"""Concrete reading of the sidecar contracts (the 'second use' of the one spec): run the REAL function under the interpreter of
the test-suite and evaluate requires / ensures / raises with CPython.  Used (a) to look for a real failing input behind an
obligation that no longer discharges, (b) to replay such an input, (c) as covers for the preconditions.
Runs under /venv/bin/python (no z3): `python -m pyvc.concrete <json request>`."""
import importlib
import itertools
import json
import sys

from contracts import specs as S


class Timeout(Exception):
    pass


def spec_env():
    def forall(f, lo=None, hi=None, trigger=None):
        return all(f(j) for j in range(lo, hi))

    def exists(f, lo=None, hi=None, trigger=None):
        return any(f(j) for j in range(lo, hi))

    def digits(s, lo=None, hi=None, top=9):
        lo = 0 if lo is None else lo
        hi = len(s) if hi is None else hi
        return all((isinstance(s[j], str) and len(s[j]) == 1 and "0" <= s[j] <= chr(48 + top)) or
                   (not isinstance(s[j], str) and 0 <= s[j] <= top) for j in range(lo, hi))

    def dig(s, j):
        return (ord(s[j]) - 48) if isinstance(s[j], str) else int(s[j])

    env = {
        "forall": forall, "exists": exists, "implies": lambda a, b: (not a) or b, "old": lambda x: x,
        "digits": digits, "val": lambda s, lo, hi, base=10: S.val(s, lo, hi, base), "dval": S.dval, "val2": S.val2, "canon": S.canon,
        "ipow": S.ipow, "dig": dig, "ite": lambda c, a, b: a if c else b, "isnone": lambda x: x is None,
        "cnt": lambda s, lo, hi, x: sum(1 for j in range(lo, hi) if s[j] == x), "ssum": lambda s, lo, hi: sum(s[lo:hi]),
        "same": lambda a, b, lo, hi: all(a[j] == b[j] for j in range(lo, hi)),
    }
    env["succ"] = S.succ
    def small_accessors(k, count=40, seed=7):
        """the complete order-k accessor, the documentation example (order 2) and seeded random arc subsets."""
        import random
        import numpy
        rng = random.Random(seed)
        n = 4 ** k
        full = numpy.array([[S.succ(v, j, k) for j in range(4)] for v in range(n)])
        out = [full.copy()]
        if k == 2:          # the GC-balanced graph of the library's documentation
            gc_ok = [v for v in range(16) if sum(1 for c in S.kmer(v, 2) if c in "CG") == 1]
            out.append(numpy.array(S.induced_accessor(gc_ok, 2)))
        for _ in range(count):
            a = full.copy()
            dens = rng.choice((0.3, 0.6, 0.9))
            for v in range(n):
                for j in range(4):
                    if rng.random() > dens:
                        a[v][j] = -1
            out.append(a)
        return out

    def walk_cases(k, count=60, seed=11):
        """(accessor, start vertex, strand) with the strand a walk of at least k nucleotides from the start vertex."""
        import random
        rng = random.Random(seed)
        out = []
        for a in small_accessors(k, count=12, seed=seed):
            starts = [v for v in range(len(a)) if any(a[v][j] >= 0 for j in range(4))]
            for _ in range(count // 12 + 1):
                if not starts:
                    break
                v0 = rng.choice(starts)
                v, w = v0, ""
                for _step in range(rng.randint(k, 6 * k + 8)):
                    live = [j for j in range(4) if a[v][j] >= 0]
                    if not live:
                        break
                    j = rng.choice(live)
                    w += "ACGT"[j]
                    v = int(a[v][j])
                if len(w) >= k:
                    out.append((a, v0, w))
        return out

    def walkv(acc, s, start, p):
        v = start
        for c in s[:p]:
            j = "ACGT".find(c)
            if v < 0 or j < 0 or acc[v][j] < 0:
                return -1
            v = int(acc[v][j])
        return v

    def corrupted_cases(k, seed=13):
        """(accessor, start, corrupted strand, original walk): one substitution / insertion / deletion at a random position of a walk."""
        import random
        rng = random.Random(seed)
        out = []
        for (a, v0, w) in walk_cases(k, count=48, seed=seed):
            if len(w) < 3 * k + 3:
                continue
            p = rng.randrange(len(w))
            kind = rng.choice("SID")
            c = rng.choice("ACGT")
            bad = w[:p] + c + w[p + 1:] if kind == "S" else (w[:p] + c + w[p:] if kind == "I" else w[:p] + w[p + 1:])
            out.append((a, v0, bad, w))
            if len(w) >= 4 * k + 6:          # one deletion and, further on, one insertion: candidates assembled from fragments of different lengths
                p1, p2 = k + 1, len(w) - k - 2
                out.append((a, v0, w[:p1] + w[p1 + 1:p2] + c + w[p2:], w))
        return out

    env["is_subst"] = lambda s2, s, p, c: len(c) == 1 and len(s2) == len(s) and 0 <= p < len(s) and s2 == s[:p] + c + s[p + 1:]
    env["is_ins"] = lambda s2, s, p, c: len(c) == 1 and 0 <= p <= len(s) and s2 == s[:p] + c + s[p:]
    env["is_del"] = lambda s2, s, p: 0 <= p < len(s) and s2 == s[:p] + s[p + 1:]
    env["corrupted_cases"] = corrupted_cases
    env["set_vt"] = lambda s, n: S.vt_spec(s, n)
    env["sorted_unique"] = lambda lst: all(a < b for a, b in zip(lst, lst[1:]))
    env["walk_cases"] = walk_cases
    env["walkv"] = walkv
    env["small_accessors"] = small_accessors
    env["lm_of"] = lambda d, acc, k, bound=None: ({int(a): [int(x) for x in b] for a, b in d.items()} ==
                                                  {v: w for v, w in S.latter_map_spec(acc).items() if bound is None or v < bound})
    env["forall_q"] = forall
    # latter-map trimming (remove_useless): concrete twins of the map predicates and a family of small maps (with and without dangling successors)
    env["lm_small"] = lambda d: all(0 <= len(b) <= 4 for b in d.values())
    env["lm_sub"] = lambda d, d0: all(a in d0 and len(b) <= 4 and all(x in d0[a] for x in b) for a, b in d.items())
    env["lm_closed"] = lambda d, t: all(len(b) >= t and all(x in d for x in b) for b in d.values())
    env["lm_indexed"] = lambda d, pos: list(d.keys()) == sorted(d.keys(), key=lambda a: pos[a]) and len(set(pos[a] for a in d)) == len(d)
    env["lm_contains"] = lambda d, d0, s_: all(a in d for a in s_)
    def small_latter_maps():
        out = []
        for k_ in (1, 2):
            for a_ in small_accessors(k_):
                m = {int(a): [int(x) for x in b] for a, b in S.latter_map_spec(a_).items()}
                out.append(m)
                ks = list(m)
                if len(ks) >= 2:
                    out.append({a: list(b) for a, b in m.items() if a != ks[0]})
                    out.append({a: list(b) for a, b in m.items() if a != ks[-1]})
        return out
    env["small_latter_maps"] = small_latter_maps
    def scrambled_latter_maps(k_):
        """latter maps of small accessors with keys and lists reversed / rotated (a caller-built map)"""
        out = []
        for a_ in small_accessors(k_):
            m = {int(a): [int(x) for x in b] for a, b in S.latter_map_spec(a_).items()}
            out.append({a: list(reversed(b)) for a, b in reversed(list(m.items()))})
            out.append({a: b[1:] + b[:1] for a, b in m.items()})
        return out
    env["scrambled_latter_maps"] = scrambled_latter_maps
    env["lm_shift"] = lambda d, k: all(0 <= a < 4 ** k and len(b) <= 4 and all(x == (a % 4 ** (k - 1)) * 4 + x % 4 and x >= 0 for x in b) for a, b in d.items())
    env["lm_written"] = lambda acc, d, k: all(int(acc[v][j]) == ((v % 4 ** (k - 1)) * 4 + j if v in d and (v % 4 ** (k - 1)) * 4 + j in d[v] else -1)
                                              for v in range(4 ** k) for j in range(4))
    def closed_sets(m, t):
        """the greatest closed vertex set of the map (entries counted by list position) and, when it differs, the empty one"""
        cur = set(m)
        while True:
            nxt = {a for a in cur if sum(1 for x in m[a] if x in cur) >= t}
            if nxt == cur:
                break
            cur = nxt
        top = {a: 1 for a in cur}
        return [top] if not cur else [top, {}]
    env["closed_sets"] = closed_sets
    env["lm_sclosed"] = lambda d, s_, t: all(a in d and sum(1 for x in d[a] if s_.get(x, 0)) >= t for a in s_ if s_[a])
    env["here"] = lambda *a: True
    env["codes"] = lambda s: [("ACGT".index(c) if c in "ACGT" and len(c) == 1 else -1) for c in s]
    env["ascents"] = lambda s: sum(i for i in range(len(s) - 1) if "ACGT".find(s[i]) < "ACGT".find(s[i + 1]))
    env["vt_matches"] = lambda chk, s: len(chk) >= 1 and all(c in "ACGT" for c in s) and chk == S.vt_spec(s, len(chk))
    env["deg"] = lambda acc, v: sum(1 for j in range(4) if acc[v][j] >= 0)
    env["dnav"] = lambda s, lo=0, hi=None: S.val4(s[lo:len(s) if hi is None else hi])
    env["is_dna"] = lambda s, lo=0, hi=None: all(c in "ACGT" for c in s[lo:len(s) if hi is None else hi])
    def shuffled_row(seed, v):
        import numpy
        numpy.random.seed(seed)
        card = None
        for _ in range(v + 1):
            card = numpy.array([0, 1, 2, 3])
            numpy.random.shuffle(card)
        return card

    env["shuffled_row"] = shuffled_row
    env["row_is"] = lambda m, r, a: [int(x) for x in m[r]] == [int(x) for x in a]
    env["is_table"] = lambda t, k: t is None or (len(t) == 4 ** k and all(sorted(int(x) for x in row) == [0, 1, 2, 3] for row in t))
    for name in ("succ", "pred", "kmer", "val4", "code", "render", "vt_spec", "is_accessor", "live", "is_walk", "filter_spec", "revcomp"):
        env[name] = getattr(S, name)
    return env


NUMBERS = sorted(set(list(range(0, 131)) + [199, 200, 255, 256, 299, 300, 999, 1000, 1001, 1009, 1099, 1100, 1999, 2000, 2003, 9999, 10000,
                                            10001, 10010, 90909, 99999, 100000, 100001, 123456789, 4 ** 27 - 1, 2 ** 53 + 1,
                                            10 ** 12, 10 ** 12 - 1, 10 ** 12 + 1, 5 * 10 ** 9, 4999999999, 10 ** 30, 10 ** 30 - 1, 3 * 10 ** 20 + 7]))


class Unsearchable(Exception):
    """no generic family of real inputs for this parameter shape (matrices, dicts, objects): the contract must name one (concrete_inputs)."""


def candidates(shape):
    if shape in ("str", "digits"):
        return [str(n) for n in NUMBERS] + ["00", "007", ""] + candidates("dna")[:400] + ["ACGTN", "acgt", "AAAAAAAAAA", "GGGGCCCCAT", "CCGCGGTTAAGC"]
    if shape in ("digit", "char"):
        return [str(d) for d in range(10)]
    if shape == "dna":
        out = [""]
        for n in range(1, 5):
            out += ["".join(t) for t in itertools.product("ACGT", repeat=n)]
        return out + ["ACGTACGTAC", "TTTTTTTTTTTTTTTTTTTTTTTTTTT", "GATTACAGATTACAGATTACAGATTACAG"]
    if shape in ("bits", "nd_bits"):
        out = []
        for n in range(0, 7):
            out += [list(t) for t in itertools.product((0, 1), repeat=n)]
        return out + [[1] * 70, [0] * 9 + [1], [1, 0] * 30]
    if shape in ("nat", "int"):
        return NUMBERS[:80] + [255, 256, 1000, 4 ** 10, 2 ** 53 + 1, 4 ** 27 - 1, 10 ** 20]
    if shape == "bool":
        return [False, True]
    if shape == "true":
        return [True]
    if shape == "false":
        return [False]
    if shape == "none":
        return [None]
    if shape.startswith("strs[") and shape.endswith("]"):          # a list of that many short strings (motifs)
        n = int(shape[5:-1])
        pool = ["A", "AC", "GC", "TTA", "CGCG", "ACGTA", "N", "ac"]
        return [list(t) for t in itertools.islice(itertools.product(pool, repeat=n), 60)]
    if shape.startswith("list_int[") and shape.endswith("]"):
        n = int(shape[9:-1])
        return [list(t) for t in itertools.islice(itertools.product((0, 1, 2, 3, 7), repeat=n), 200)]
    raise Unsearchable(shape)


def resolve(qualname):
    parts = qualname.split(".")
    mod = importlib.import_module(".".join(parts[:2]))
    obj = mod
    for p in parts[2:]:
        obj = getattr(obj, p)
    return obj


def check_one(fn, c, args, env, limit=5.0):
    """returns None when the contract holds on this input (or requires is false), else a description."""
    import signal
    local = dict(env)
    local.update(args)
    try:
        if not all(eval(txt, local) for txt in c.get("requires", {}).values()):
            return None
    except Exception:
        return None
    expect_raise = None
    for exc, txt in c.get("raises", {}).items():
        if txt is not None and eval(txt, local):
            expect_raise = exc

    def handler(signum, frame):
        raise Timeout()
    old = signal.signal(signal.SIGALRM, handler)
    signal.setitimer(signal.ITIMER_REAL, limit)
    try:
        try:
            import copy
            res = fn(**copy.deepcopy({k_: v_ for k_, v_ in args.items() if k_ not in c.get("ghost_params", {})}))
        finally:
            signal.setitimer(signal.ITIMER_REAL, 0)
            signal.signal(signal.SIGALRM, old)
    except Timeout:
        if c.get("terminates_within_s"):
            return {"observed": "did not return within %.0f s" % limit, "clause": "termination"}
        return None          # slow is not wrong: inconclusive for this input
    except (MemoryError, RecursionError):
        return None          # resource exhaustion on an absurdly large input is outside the modelled semantics: inconclusive for this input
    except Exception as e:  # noqa
        name = type(e).__name__
        if name in c.get("raises", {}) and (c["raises"][name] is None or expect_raise == name):
            return None
        return {"observed": f"raised {name}: {str(e)[:120]}", "clause": f"raises (allowed: {sorted(c.get('raises', {}))})"}
    if expect_raise is not None:
        return {"observed": f"returned {res!r:.120}", "clause": f"raises {expect_raise} exactly when {c['raises'][expect_raise]}"}
    local["result"] = res
    if c.get("collections"):
        local["candidates_ok"] = lambda lst, name: all(eval(c["collections"][name], dict(local, candidate=x)) for x in lst)
    for label, txt in c.get("ensures", {}).items():
        try:
            ok = bool(eval(txt, local))
        except Exception as e:  # noqa
            continue        # a clause this evaluator cannot evaluate (ghost witness, spec function without a concrete twin) decides nothing
        if not ok:
            return {"observed": f"returned {res!r:.200}", "clause": f"ensures {label}: {txt}"}
    return None


def jsonable_args(args):
    import numpy
    out = {}
    for k_, v_ in args.items():
        if isinstance(v_, numpy.ndarray):
            out[k_] = v_.tolist()
        elif isinstance(v_, dict):
            out[k_] = {str(a): ([int(x) for x in b] if isinstance(b, (list, tuple)) else int(b)) for a, b in v_.items()}
        else:
            out[k_] = v_
    return out


def search(req):
    mod = importlib.import_module("contracts." + req["module"])
    c = next(x for x in mod.CONTRACTS if x["name"] == req["contract"])
    for key in ("requires", "ensures"):
        if isinstance(c.get(key), list):
            c[key] = {f"c{i + 1}": x for i, x in enumerate(c[key])}
    target = c.get("function", c["name"])
    env = spec_env()
    receivers = [None]
    if c.get("self_class") == "new":                      # a constructor contract: calling the class runs __init__
        cls = resolve(target.rsplit(".", 1)[0])
        fn = lambda **kw: (cls(**kw), None)[1]
    elif c.get("self_class") == "Monitor":                # the progress monitor: a fresh (idle) or started receiver, output discarded
        import contextlib
        import io
        cls = resolve(target.rsplit(".", 1)[0])
        started = c.get("self_config", {}).get("started", False)

        def fn(**kw):
            kw.pop("self", None)
            m_ = cls()
            with contextlib.redirect_stdout(io.StringIO()):
                if started:
                    m_(1, 10)
                return m_(**kw)
        c = dict(c)
        c["params"] = {k_: v_ for k_, v_ in c["params"].items() if k_ != "self"}
        c.setdefault("candidates", {}).update({"current_state": list(range(0, 6)) + [10, 99, 100, 101], "total_state": list(range(0, 6)) + [10, 100]})
    elif c.get("self_class") == "LocalBioFilter":         # a method contract: receivers from a configuration grid of the contract's shape
        cls = resolve(target.rsplit(".", 1)[0])
        cfg = c.get("self_config", {})
        receivers = []
        for k_ in (1, 2, 3, 4):
            for run in ([1, 2, 3] if cfg.get("run") else [None]):
                if run is not None and run > k_:
                    continue
                for gc in ([[0.5, 0.5], [0.25, 0.75], [0.0, 0.5]] if cfg.get("gc") else [None]):
                    mots = {None: [None], 0: [[]], 1: [["AC"], ["G"]], 2: [["CG", "TA"]], 3: [["A", "CG", "TTA"]]}[cfg.get("motifs")]
                    for mot in mots:
                        if mot is not None and any(len(x) > k_ for x in mot):
                            continue
                        receivers.append(cls(observed_length=k_, max_homopolymer_runs=run, gc_range=gc, undesired_motifs=mot))
        meth = target.rsplit(".", 1)[1]
        fn = None
        env["filter_ok"] = lambda f, s_: S.filter_spec(f.observed_length, f.max_homopolymer_runs, f.gc_range, f.undesired_motifs, s_)
    else:
        fn = resolve(target)
    names = list(c.get("params", {}))
    pools = []
    for n in ([] if c.get("concrete_inputs") else names):
        if n in req.get("split", {}):
            pools.append([req["split"][n]])
        elif n in c.get("candidates", {}):
            pools.append(c["candidates"][n])
        else:
            pools.append(candidates(c["params"][n]))
    tried = 0
    budget = req.get("budget", 30000)
    if c.get("concrete_inputs") and "input" not in req:
        # the contract names its own finite family of real inputs (ghost parameters included): an expression over the spec environment
        import dsw
        scope = dict(env)
        scope.update({n_: getattr(dsw, n_) for n_ in dir(dsw) if not n_.startswith("_")})
        for args in eval(c["concrete_inputs"], scope):
            tried += 1
            r = check_one(fn, c, args, env)
            if r is not None:
                return {"tried": tried, "failing": {"input": jsonable_args(args), "receiver": None, **r}}
        return {"tried": tried, "failing": None}
    def describe(rcv):
        return None if rcv is None else {k_: getattr(rcv, k_) for k_ in ("observed_length", "max_homopolymer_runs", "gc_range", "undesired_motifs")}

    def bound(rcv):
        if rcv is None:
            return fn
        env["self"] = rcv
        return getattr(rcv, meth)
    if "input" in req:
        import numpy
        for n_, shape in c.get("params", {}).items():           # a replay record went through JSON: matrices and int-keyed dicts come back
            if n_ in req["input"] and shape.startswith("mat("):
                req["input"][n_] = numpy.array(req["input"][n_])
            if n_ in req["input"] and shape == "dict":
                req["input"][n_] = {int(a): list(b) for a, b in req["input"][n_].items()}
        for n_, shape in c.get("ghost_params", {}).items():      # a ghost position map (key -> position) went through JSON as well
            if n_ in req["input"] and shape == "arr" and isinstance(req["input"][n_], dict):
                req["input"][n_] = {int(a): int(b) for a, b in req["input"][n_].items()}
        rcv = None
        if req.get("receiver"):
            rcv = cls(**req["receiver"])
        r = check_one(bound(rcv), c, req["input"], env)
        return {"tried": 1, "failing": None if r is None else {"input": req["input"], "receiver": req.get("receiver"), **r}}
    for rcv in receivers:
        f_ = bound(rcv)
        for combo in itertools.product(*pools):
            tried += 1
            if tried > budget:
                break
            args = dict(zip(names, combo))
            r = check_one(f_, c, args, env)
            if r is not None:
                return {"tried": tried, "failing": {"input": args, "receiver": describe(rcv), **r}}
    return {"tried": tried, "failing": None}


if __name__ == "__main__":
    req = json.loads(sys.argv[1])
    try:
        out = search(req)
    except Unsearchable as e:
        out = {"tried": 0, "failing": None, "note": f"no generic candidate family for a parameter of shape {e}; the contract names none (concrete_inputs)"}
    print(json.dumps(out, default=str))
