"""Evidence writer: /verif/evidence/<id>.json per EVIDENCE.schema.json, from what this run actually did."""
import json
import os

COMMON_ASSUMPTIONS = [
    "pyvc is a home-made VC generator: its encoding of Python semantics (DESIGN.md sections 2 and 12.6) is trusted; guards: 'ensures False' canaries on every "
    "unit, library-contract conformance against the real numpy/Python (selftest/, thorough tier), 110+ independently seeded property-breaking changes (seeded/) "
    "that the checks must report and 17 behaviour-preserving refactorings (refactors/) on which they must stay quiet",
    "numpy int64 RESULTS are treated as mathematical integers (no wrap-around: vertex indices < 4^k, k <= 31; position sums < 2^63); the conversion of a Python "
    "int operand of a numpy.sum result to int64 (OverflowError, NumPy >= 2) IS modelled, scalars read out of arrays by indexing are not tagged",
    "CPython's 4300-digit limit of int(str) / str(int) is modelled; other interpreter limits (recursion depth, memory) are not",
    "running time, memory, interpreter start-up, the datetime-dependent text of Monitor are not modelled",
]


def write(here, pid, P, tier, seed, proof, bounded, n_viol, known_lines, undecided, errors, wall, selftests=None):
    cov = {}
    ev = sum(b["evaluations"] for b in bounded)
    dn = sum(b["distinct_nontrivial"] for b in bounded)
    samples = []
    for b in bounded:
        samples += [{"driver": b["driver"], "case": s} for s in b["samples"][:3]]
    if bounded:
        cov.update({
            "evaluations": ev, "distinct_nontrivial": dn,
            "rule": " || ".join(f"[{b['driver']}] {b['rule']}" for b in bounded),
            "exhaustive": all(b.get("exhaustive") for b in bounded),
            "bounded_drivers": [{"driver": b["driver"], "evaluations": b["evaluations"], "distinct_nontrivial": b["distinct_nontrivial"],
                                 "exhaustive": b.get("exhaustive", False), "wall_s": b["wall_s"], "failures": len(b["failures"])} for b in bounded],
        })
    level = P["level"]
    trusted = list(P.get("trusted_base", []))
    if proof is not None:
        cov.update({
            "obligations": proof["obligations"], "discharged": proof["discharged"],
            "checker_cmd": proof["checker_cmd"],
            "functions_under_contract": proof["functions"],
            "obligations_by_backend": proof["by_backend"],
            "solver_seconds": proof["solver_seconds"],
            "slowest_obligations": proof["slowest"],
            "lemmas": [f.get("contract") for f in proof["functions"] if str(f.get("contract", "")).startswith("lemma.")],
            "vacuity_guards": proof.get("vacuity", {}),
            "dropped_by_extraction": "docstring expression statements only; every other statement of the function body is executed symbolically",
            "not_discharged": proof.get("not_discharged", []),
            "demoted_clauses": P.get("demoted", []),
        })
        samples += [{"obligation": s} for s in proof.get("samples", [])][:6]
        trusted += [t for t in proof.get("trusted_base", []) if t not in trusted]
        if (proof["discharged"] != proof["obligations"] or proof.get("binding_failures")) and level == "proof":
            level = "other"          # an undischarged obligation or a unit whose sidecar no longer binds: nothing is claimed as proved
    else:
        if level == "proof":
            level = "other"
    if selftests:
        cov["selftests"] = selftests
    cov["trusted_base"] = trusted
    cov["samples"] = samples or [{"note": "no case explored"}]
    cov["explanation"] = P["explanation"] + (
        "  PROOF TIER of this run: %d obligations generated from the current source of %d function(s), %d discharged (unsat of the negation), "
        "all inputs / all iterations, no bound." % (proof["obligations"], len(proof["functions"]), proof["discharged"]) if proof is not None else
        "  No proof tier ran in this invocation.") + (
        "  BOUNDED TIER (never counted as proved): %d cases through the run-time contracts on the real functions." % ev if bounded else "")
    if level == "proof" and "checker_cmd" not in cov:
        level = "other"
    doc = {
        "property_id": pid, "tier": tier, "seed": seed, "level": level, "coverage": cov,
        "assumptions": COMMON_ASSUMPTIONS + list(P.get("assumptions", [])),
        "wall_s": round(wall, 2), "violations": n_viol,
        "known_findings_reported": known_lines, "undecided": undecided[:20], "checker_errors": errors[:5],
    }
    os.makedirs(os.path.join(here, "evidence"), exist_ok=True)
    json.dump(doc, open(os.path.join(here, "evidence", pid + ".json"), "w"), indent=1, default=str)
