"""Symbolic value domain of pyvc (DESIGN.md sections 1.3 and 2).

ints/bools are z3 terms; a Python str / list / 1-D numpy array is a *view* (kind, elem, arr, start, n, delta) on a z3 array:
element j is arr[start + j] + delta.  Slices, single characters, character-wise maps are new views on the same array.
"""
import itertools

import z3

I = z3.IntSort()
B = z3.BoolSort()
A = z3.ArraySort(I, I)
A2 = z3.ArraySort(I, A)
_cnt = itertools.count()


def fresh(prefix, sort=I):
    return z3.Const(f"{prefix}!{next(_cnt)}", sort)


def iv(n):
    return z3.IntVal(n)


def is_lit(e):
    return z3.is_int_value(e)


def lit(e):
    e = z3.simplify(e) if z3.is_expr(e) else e
    if z3.is_expr(e) and z3.is_int_value(e):
        return e.as_long()
    if isinstance(e, int):
        return e
    return None


def add(a, b):
    """a + b with constant folding (keeps select indices syntactically simple for E-matching)."""
    if isinstance(a, int):
        a = iv(a)
    if isinstance(b, int):
        b = iv(b)
    la, lb = (a.as_long() if z3.is_int_value(a) else None), (b.as_long() if z3.is_int_value(b) else None)
    if la is not None and lb is not None:
        return iv(la + lb)
    if la == 0:
        return b
    if lb == 0:
        return a
    return z3.simplify(a + b, som=False) if (la is not None or lb is not None) else a + b


def sub(a, b):
    if isinstance(b, int):
        return add(a, -b)
    if z3.is_int_value(b):
        return add(a, -b.as_long())
    return a - b


class NoneV:
    def __repr__(self):
        return "NoneV"


NONE = NoneV()


class Tup:
    """Python tuple (or fixed-length heterogeneous list) of symbolic values."""

    def __init__(self, items):
        self.items = list(items)

    def __repr__(self):
        return f"Tup({self.items})"


class Seq:
    """kind: 'str' | 'list' | 'nd' ; elem: 'char' | 'int' | 'bool' ; dtype only for nd ('int' | 'bool' | 'float')."""

    def __init__(self, kind, elem, arr, n, start=None, delta=0, dtype=None, rev=False):
        self.kind, self.elem, self.arr, self.n = kind, elem, arr, n
        self.start = iv(0) if start is None else start
        self.delta = delta
        self.dtype = dtype

    def idx(self, j):
        return add(self.start, j)

    def at(self, j):
        v = self.arr[self.idx(j)]
        return v if self.delta == 0 else add(v, self.delta)

    def view(self, lo, n, kind=None, elem=None, delta=None):
        return Seq(kind or self.kind, elem or self.elem, self.arr, n, add(self.start, lo), self.delta if delta is None else delta, self.dtype)

    def retag(self, kind, elem, ddelta=0):
        return Seq(kind, elem, self.arr, self.n, self.start, self.delta + ddelta, self.dtype)

    def store(self, j, v):
        """functional update of element j (value v in element space)."""
        raw = v if self.delta == 0 else sub(v, self.delta)
        return Seq(self.kind, self.elem, z3.Store(self.arr, self.idx(j), raw), self.n, self.start, self.delta, self.dtype)

    def with_n(self, n):
        return Seq(self.kind, self.elem, self.arr, n, self.start, self.delta, self.dtype)

    def forall(self, pred, lo=None, hi=None):
        """ForAll over ABSOLUTE array indices: pred(element value)."""
        lo = self.start if lo is None else add(self.start, lo)
        hi = add(self.start, self.n) if hi is None else add(self.start, hi)
        i = fresh("q")
        raw = self.arr[i]
        body = z3.Implies(z3.And(lo <= i, i < hi), pred(raw if self.delta == 0 else add(raw, self.delta)))
        if has_ite(self.arr):
            return z3.ForAll([i], body)
        try:
            return z3.ForAll([i], body, patterns=[self.arr[i]])
        except z3.Z3Exception:       # e.g. select over a constant array folds away: let z3 choose
            return z3.ForAll([i], body)

    def __repr__(self):
        return f"Seq({self.kind},{self.elem},n={self.n},start={self.start},delta={self.delta})"


def has_ite(e):
    """'if' cannot be used in patterns: detect it before handing a trigger to z3."""
    seen, stack = set(), [e]
    while stack:
        x = stack.pop()
        if x.get_id() in seen:
            continue
        seen.add(x.get_id())
        if z3.is_app(x):
            if x.decl().kind() == z3.Z3_OP_ITE:
                return True
            stack.extend(x.children())
    return False


def qforall(vs, body, pats=None):
    """ForAll with hand-chosen triggers when they are legal (no ite inside), otherwise z3's own choice."""
    if pats:
        flat = []
        for p_ in pats:
            flat += list(p_) if isinstance(p_, (list, tuple)) else [p_]
        if not any(has_ite(x) for x in flat):
            try:
                return z3.ForAll(vs, body, patterns=[z3.MultiPattern(*p_) if isinstance(p_, (list, tuple)) else p_ for p_ in pats])
            except z3.Z3Exception:
                pass
    return z3.ForAll(vs, body)


def const_str(txt):
    arr = z3.K(I, iv(0))
    for i, ch in enumerate(txt):
        arr = z3.Store(arr, i, ord(ch))
    s = Seq("str", "char", arr, iv(len(txt)))
    s.const = txt
    return s


def const_list(vals):
    arr = z3.K(I, iv(0))
    for i, v in enumerate(vals):
        arr = z3.Store(arr, i, v)
    return Seq("list", "int", arr, iv(len(vals)))


def fresh_seq(name, kind, elem, n=None, dtype=None):
    return Seq(kind, elem, fresh(name, A), fresh(name + "_n") if n is None else n, dtype=dtype)


class Mat:
    """2-D numpy int array as a nested array: arr2[r][c]; rows/cols z3 ints."""

    def __init__(self, arr2, rows, cols, dtype="int"):
        self.arr2, self.rows, self.cols, self.dtype = arr2, rows, cols, dtype

    def at(self, r, c):
        return self.arr2[r][c]

    def row(self, r):
        """accessor[r]: reading view of one row (a 1-D array of length cols)."""
        s = Seq("nd", "int", self.arr2[r], self.cols, dtype=self.dtype)
        s.row_of = (self, r)
        return s

    def store(self, r, c, v):
        return Mat(z3.Store(self.arr2, r, z3.Store(self.arr2[r], c, v)), self.rows, self.cols, self.dtype)

    def store_row(self, r, row_arr):
        return Mat(z3.Store(self.arr2, r, row_arr), self.rows, self.cols, self.dtype)


def const_mat(v, rows, cols):
    return Mat(z3.K(I, z3.K(I, iv(v))), rows, cols)


class Row:
    pass


class ZipSeq:
    """element-wise a - b of two 1-D numpy arrays of equal length (lazy: element j is a[j] - b[j])."""

    def __init__(self, a, b):
        self.a, self.b, self.n = a, b, a.n
        self.kind, self.elem, self.dtype = "nd", "int", a.dtype

    def at(self, j):
        return self.a.at(j) - self.b.at(j)

    def trigger(self, p):
        return self.a.at(p)


class MaskV:
    """numpy boolean mask  <1-D array> <op> <scalar>  kept symbolic: cond(j) is the truth value at position j."""

    def __init__(self, seq, pred):
        self.seq, self.pred, self.n = seq, pred, seq.n

    def cond(self, j):
        return self.pred(self.seq.at(j))

    def trigger(self, p):
        return self.seq.trigger(p) if isinstance(self.seq, ZipSeq) else self.seq.at(p)


class PairSeq:
    """a Python list of 2-tuples of ints, kept as two parallel sequences (first components, second components)."""

    def __init__(self, a, b):
        self.a, self.b = a, b
        self.kind = "list"

    @property
    def n(self):
        return self.a.n

    def at(self, j):
        return Tup([self.a.at(j), self.b.at(j)])


class LazySeq:
    """a 1-D numpy array given by a function of the position (e.g. the row sums of a matrix expression); never stored into."""

    def __init__(self, n, at_fn, elem="int", dtype="int"):
        self.n, self.at_fn, self.elem, self.dtype, self.kind = n, at_fn, elem, dtype, "nd"
        self.delta, self.start = 0, iv(0)

    def at(self, j):
        return self.at_fn(j)

    def trigger(self, p):
        return self.at_fn(p)


class MatLazy:
    """an element-wise expression over a matrix (accessor + 1, (accessor + 1).astype(bool)): at(r, c) is a function of the base entry."""

    def __init__(self, rows, cols, at_fn, dtype="int"):
        self.rows, self.cols, self.at_fn, self.dtype = rows, cols, at_fn, dtype

    def at(self, r, c):
        return self.at_fn(r, c)


class DictV:
    """a Python dict  int -> list of ints : key set (Array Int Bool), value arrays and lengths per key, and the insertion order (a Seq of keys)."""

    def __init__(self, has, varr, vlen, order):
        self.has, self.varr, self.vlen, self.order = has, varr, vlen, order

    def value(self, k):
        s = Seq("list", "int", self.varr[k], self.vlen[k])
        s.maxlen = 4
        return s


class CList:
    """a Python list of objects (strings / arrays) of which ONLY THE LENGTH is tracked (contract type `list_counted`): elements read from it are opaque
    values; a subscript load / store is in range or raises IndexError (an obligation), append adds one.  Used for the bookkeeping lists of repair_dna."""

    def __init__(self, n):
        self.n = n


class MemList:
    """a Python list of ints that the function only ever appends to and tests membership in (contract type `list_members`): abstracted to the SET of its
    elements (characteristic array Int -> Bool).  `[]` is the empty set, append adds, `x in l` reads the array; every other operation is unsupported."""

    def __init__(self, chi):
        self.chi = chi


class MaybeFloat:
    """an integer-valued numpy scalar whose dtype is float64 when `when` holds (sum / % over array([]) without a dtype)."""

    def __init__(self, value, when):
        self.value, self.when = value, when


class NpInt:
    """a numpy int64 SCALAR (result of numpy.sum): mixed arithmetic with a Python int converts that int to int64 first (NumPy >= 2, NEP 50) and raises
    OverflowError when it does not fit.  Wrap-around of int64 results themselves is not modelled (listed assumption)."""

    def __init__(self, value):
        self.value = value


class Obj:
    """record of fields (LocalBioFilter / abstract filter / Monitor)."""

    def __init__(self, cls, fields=None):
        self.cls, self.fields = cls, dict(fields or {})


class FloatV:
    """opaque float term: only products with an int (fmul) and comparisons against ints are modelled."""

    def __init__(self, term):
        self.term = term


def seq_eq(a, b):
    ca, cb = getattr(a, "const", None), getattr(b, "const", None)
    if cb is None and ca is not None:
        a, b, ca, cb = b, a, cb, ca
    if cb is not None:
        return z3.And(a.n == len(cb), *[a.at(j) == ord(ch) for j, ch in enumerate(cb)])
    nb = lit(b.n)
    if nb is not None and nb <= 8:
        return z3.And(a.n == nb, *[a.at(j) == b.at(j) for j in range(nb)])
    j = fresh("e")
    return z3.And(a.n == b.n, z3.ForAll([j], z3.Implies(z3.And(0 <= j, j < a.n), a.at(j) == b.at(j))))
