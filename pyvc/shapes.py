"""Parameter / result shapes named by the contracts, and fresh symbolic values of those shapes."""
import z3

from pyvc.sym import I, B, A, A2, iv, fresh, fresh_seq, Seq, Tup, Mat, Obj, NONE, FloatV, const_str, const_list
from pyvc import specz3



def split_top(txt):
    """split 'a, b' at the last comma that is not inside parentheses."""
    depth, cut_ = 0, None
    for i_, ch in enumerate(txt):
        if ch in "([":
            depth += 1
        elif ch in ")]":
            depth -= 1
        elif ch == "," and depth == 0:
            cut_ = i_
    return txt[:cut_], txt[cut_ + 1:]


def const_value(v):
    if isinstance(v, str):
        return const_str(v)
    if isinstance(v, bool):
        return z3.BoolVal(v)
    if isinstance(v, int):
        return iv(v)
    if v is None:
        return NONE
    if isinstance(v, (list, tuple)) and all(isinstance(x, int) for x in v):
        return const_list([iv(x) for x in v])
    raise ValueError(f"split value {v!r}")


def fresh_of(ex, st, shape, name, scope=None):
    """shape grammar:  int | nat | bool | str | char | digit | digits | bits | list_int | list_char | nd_int | nd_bool | none |
    tuple(a,b,..) | mat(rows,cols) | accessor(k) | obj:<Class> | false | true"""
    shape = shape.strip()
    if shape.startswith("tuple(") and shape.endswith(")"):
        parts, depth, cur = [], 0, ""
        for ch in shape[6:-1]:
            if ch == "," and depth == 0:
                parts.append(cur)
                cur = ""
            else:
                depth += ch == "("
                depth -= ch == ")"
                cur += ch
        parts.append(cur)
        return Tup([fresh_of(ex, st, p, f"{name}_{k}", scope) for k, p in enumerate(parts)])
    if shape in ("int", "nat"):
        v = fresh(name)
        if shape == "nat":
            st.assume(v >= 0)
        return v
    if shape == "bool":
        return fresh(name, B)
    if shape == "const0":
        return iv(0)
    if shape == "false":
        return z3.BoolVal(False)
    if shape == "true":
        return z3.BoolVal(True)
    if shape == "none":
        return NONE
    if shape in ("str", "char", "digit", "digits", "dna"):
        s = fresh_seq(name, "str", "char", n=iv(1) if shape in ("char", "digit") else None)
        st.assume(s.n >= 0)
        if shape in ("digit", "digits"):
            st.assume(specz3.seq_digits(s))
        if shape == "dna":
            st.assume(s.forall(lambda v: z3.Or(v == 65, v == 67, v == 71, v == 84)))
        return s
    if shape.startswith("list_int[") and shape.endswith("]"):
        return fresh_seq(name, "list", "int", n=iv(int(shape[9:-1])))
    if shape in ("bits", "list_int", "nd_int", "nd_bits", "nd_bool", "list_char"):
        kind = "nd" if shape.startswith("nd") else "list"
        elem = "char" if shape == "list_char" else ("bool" if shape == "nd_bool" else "int")
        s = fresh_seq(name, kind, elem, dtype=("bool" if shape == "nd_bool" else "int") if kind == "nd" else None)
        st.assume(s.n >= 0)
        if shape in ("bits", "nd_bits", "nd_bool"):
            st.assume(s.forall(lambda v: z3.Or(v == 0, v == 1)))
        return s
    if shape.startswith("mat(") and shape.endswith(")"):
        r_, c_ = split_top(shape[4:-1])
        rows = ex.spec_eval(r_, scope or st)
        cols = ex.spec_eval(c_, scope or st)
        return Mat(fresh(name, A2), rows, cols)
    if shape.startswith("obj:"):
        return make_obj(ex, st, shape[4:], name)
    if shape.startswith("strs[") and shape.endswith("]"):          # a list of that many strings (kept as a tuple of symbolic strings)
        out = []
        for k_ in range(int(shape[5:-1])):
            m_ = fresh_seq(f"{name}_{k_}", "str", "char")
            st.assume(m_.n >= 0)
            out.append(m_)
        return Tup(out)
    if shape == "dict":
        from pyvc.sym import DictV
        d_ = DictV(fresh(name + "_has", z3.ArraySort(I, B)), fresh(name + "_varr", A2), fresh(name + "_vlen", A),
                   Seq("list", "int", fresh(name + "_order", A), fresh(name + "_order_n")))
        st.assume(d_.order.n >= 0)
        # representation invariant of every Python dict: the insertion order lists keys (each present) without repetition
        i_, j_ = z3.Int("i#dord"), z3.Int("j#dord")
        st.assume(z3.ForAll([i_], z3.Implies(z3.And(0 <= i_, i_ < d_.order.n), d_.has[d_.order.arr[i_]]), patterns=[d_.order.arr[i_]]))
        st.assume(z3.ForAll([i_, j_], z3.Implies(z3.And(0 <= i_, i_ < j_, j_ < d_.order.n), d_.order.arr[i_] != d_.order.arr[j_]),
                            patterns=[z3.MultiPattern(d_.order.arr[i_], d_.order.arr[j_])]))
        return d_
    if shape == "arr":
        return fresh(name, A)
    if shape == "arr2":
        return fresh(name, A2)
    if shape == "float":
        return FloatV(fresh(name, z3.RealSort()))
    raise ValueError(f"unknown shape {shape!r}")


def make_obj(ex, st, cls, name):
    if cls == "AbstractFilter":
        return Obj("AbstractFilter", {"__id__": fresh(name)})
    if cls == "LocalBioFilter":
        return make_local_filter(ex, st, name)
    if cls == "Monitor":
        # the progress monitor: its only field is the start time of the current job (None between jobs)
        started = ex.c.get("self_config", {}).get("started", False)
        return Obj("Monitor", {"last_time": Obj("datetime", {"__id__": fresh(name + "_t0")}) if started else NONE})
    raise ValueError(cls)


def make_local_filter(ex, st, name):
    """fields as the constructor leaves them: observed_length int; max_homopolymer_runs None|int; gc_range None|[lo,hi];
    undesired_motifs None | list of strings (modelled for the contract's split: a Tup of fresh strings)."""
    cfg = ex.c.get("self_config", {})
    f = {}
    f["observed_length"] = fresh(name + "_k")
    st.assume(f["observed_length"] >= 1)
    if cfg.get("run", True):
        f["max_homopolymer_runs"] = fresh(name + "_run")
    else:
        f["max_homopolymer_runs"] = NONE
    if cfg.get("gc", True):
        f["gc_range"] = Tup([FloatV(fresh(name + "_gclo", z3.RealSort())), FloatV(fresh(name + "_gchi", z3.RealSort()))])
    else:
        f["gc_range"] = NONE
    nm = cfg.get("motifs", 0)
    if nm is None:
        f["undesired_motifs"] = NONE
    else:
        ms = []
        for k in range(nm):
            m = fresh_seq(f"{name}_motif{k}", "str", "char")
            st.assume(m.n >= 0)
            ms.append(m)
        f["undesired_motifs"] = Tup(ms)
    f["screen_name"] = const_str("Local")
    return Obj("LocalBioFilter", f)


def make_self(ex, st):
    cls = ex.c.get("self_class")
    if cls == "new":
        return Obj(ex.c.get("self_new", "object"), {})
    if cls is None:
        raise ValueError("method contract without self_class")
    return make_obj(ex, st, cls, "self")
