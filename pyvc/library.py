"""Trusted library contracts (DESIGN.md section 3): numpy / networkx / itertools / str methods.  Everything in this file is an
ASSUMPTION about code outside the repository; each entry records itself in ex.trusted_used so that evidence lists exactly
the part of the trusted base a proof touched."""
import ast

import z3

from pyvc import specz3
from pyvc.sym import (I, B, A, A2, iv, add, sub, lit, fresh, fresh_seq, Seq, Tup, Mat, Row, Obj, FloatV, NONE, NoneV, const_str, const_list)


def U(msg):
    from pyvc.engine import Unsupported
    return Unsupported(msg)


def toint(v):
    from pyvc.engine import toint as t
    return t(v)


def tobool(v):
    from pyvc.engine import tobool as t
    return t(v)


FUNCS = {}


def lib(name):
    def deco(f):
        FUNCS[name] = f
        return f
    return deco


def str_map(ex, e, st, base, attr):
    """s.replace(a, b) for single characters and s.upper(): character-wise maps -> fresh array defined point-wise."""
    ex.trusted_used.add("str.replace (single characters) / str.upper: character-wise map")
    if attr == "replace":
        a, b = ex.ev(e.args[0], st), ex.ev(e.args[1], st)
        ta, tb = getattr(a, "const", None), getattr(b, "const", None)
        if ta is None or tb is None or len(ta) != 1 or len(tb) != 1:
            raise U("replace with non-constant or multi-character arguments")
        f = lambda v: z3.If(v == ord(ta), iv(ord(tb)), v)
    else:
        f = lambda v: z3.If(z3.And(v >= 97, v <= 122), v - 32, v)
    out = Seq("str", "char", fresh("smap", A), base.n)
    i = fresh("q")
    st.assume(z3.ForAll([i], z3.Implies(z3.And(0 <= i, i < base.n), out.arr[i] == f(base.at(i))), patterns=[out.arr[i]]))
    return out


def astype(ex, e, st, base):
    raise U("astype")


def obj_method(ex, e, st, base, attr):
    raise U(f"method {attr} of {base.cls}")


def shape_of(ex, e, st):
    kw = {k.arg: k.value for k in e.keywords}
    sh = kw.get("shape", e.args[0] if e.args else None)
    if sh is None:
        raise U("array constructor without a shape")
    v = ex.ev(sh, st)
    dims = [toint(x) for x in v.items] if isinstance(v, Tup) else [toint(v)]
    dt = kw.get("dtype", e.args[1] if len(e.args) > 1 else None)
    dtype = "float"
    if dt is not None:
        t = ex.ev(dt, st)
        dtype = t[1] if isinstance(t, tuple) and t[0] == "type" else "float"
    return dims, dtype


def filled(ex, e, st, value, what):
    """numpy.zeros / numpy.ones (shape, dtype): a fresh array, every entry = value; the dtype is part of the value."""
    ex.trusted_used.add(f"numpy.{what}(shape, dtype): fresh array of that shape filled with {value}")
    dims, dtype = shape_of(ex, e, st)
    from pyvc.sym import const_mat
    for d in dims:
        ex.may_raise(st, "ValueError", d < 0, f"negative-dimension:{ex.ordinal('dim')}", e.lineno)
    if len(dims) == 1:
        out = Seq("nd", "bool" if dtype == "bool" else "int", z3.K(I, iv(value)), dims[0], dtype=dtype)
        out.const_fill = value
        return out
    if len(dims) == 2:
        m = const_mat(value, dims[0], dims[1])
        m.dtype = dtype
        m.const_fill = value
        return m
    raise U("array of more than two dimensions")


@lib("zeros")
def np_zeros(ex, e, st):
    return filled(ex, e, st, 0, "zeros")


@lib("ones")
def np_ones(ex, e, st):
    return filled(ex, e, st, 1, "ones")
