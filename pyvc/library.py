"""Trusted library contracts (DESIGN.md section 3): numpy / networkx / itertools / str methods.  Everything in this file is an
ASSUMPTION about code outside the repository; each entry records itself in ex.trusted_used so that evidence lists exactly
the part of the trusted base a proof touched."""
import ast

import z3

from pyvc import specz3
from pyvc.sym import (I, B, A, A2, iv, add, sub, lit, fresh, fresh_seq, Seq, Tup, Mat, Row, Obj, FloatV, NONE, NoneV, const_str, const_list, MaskV, ZipSeq, MaybeFloat, qforall, LazySeq, MatLazy, DictV, NpInt)


def U(msg):
    from pyvc.engine import Unsupported
    return Unsupported(msg)


def toint(v):
    from pyvc.engine import toint as t
    return t(v)


def tobool(v):
    from pyvc.engine import tobool as t
    return t(v)


FUNCS = {}


def lib(name):
    def deco(f):
        FUNCS[name] = f
        return f
    return deco


def str_map(ex, e, st, base, attr):
    """s.replace(a, b) for single characters and s.upper(): character-wise maps, as deterministic array functions."""
    ex.trusted_used.add("str.replace (single characters) / str.upper / [::-1]: character-wise maps")
    if base.delta != 0 or lit(base.start) != 0:
        # normalise the view first (copy semantics): a fresh array that agrees with the view
        out0 = Seq("str", "char", fresh("sview", A), base.n)
        i0 = fresh("q")
        st.assume(z3.ForAll([i0], z3.Implies(z3.And(0 <= i0, i0 < base.n), out0.arr[i0] == base.at(i0)), patterns=[out0.arr[i0]]))
        base = out0
    ex.use_str_axioms()
    if attr == "replace":
        a, b = ex.ev(e.args[0], st), ex.ev(e.args[1], st)
        ta, tb = getattr(a, "const", None), getattr(b, "const", None)
        if ta is None or tb is None or len(ta) != 1 or len(tb) != 1:
            raise U("replace with non-constant or multi-character arguments")
        return Seq("str", "char", specz3.repl(base.arr, iv(ord(ta)), iv(ord(tb))), base.n)
    return Seq("str", "char", specz3.upper(base.arr), base.n)


def astype(ex, e, st, base):
    """x.astype(bool): entry != 0 (kept as 0/1) ; x.astype(int): same numbers."""
    ex.trusted_used.add("ndarray.astype(bool | int)")
    t = ex.ev(e.args[0], st)
    kind = t[1] if isinstance(t, tuple) and t[0] == "type" else None
    if kind not in ("bool", "int"):
        raise U("astype to this type")
    conv = (lambda x: z3.If(x != 0, iv(1), iv(0))) if kind == "bool" else (lambda x: x)
    if isinstance(base, (Mat, MatLazy)):
        return MatLazy(base.rows, base.cols, lambda r_, c_, b=base: conv(b.at(r_, c_)), kind)
    if isinstance(base, LazySeq):
        return LazySeq(base.n, lambda j, b=base: conv(b.at(j)), dtype=kind)
    if isinstance(base, Seq):
        if kind == "int":
            return base
        return LazySeq(base.n, lambda j, b=base: conv(b.at(j)), dtype=kind)
    raise U("astype of this value")


VERDICT = z3.Function("filter_accepts", I, I, I, B)      # verdict of an abstract filter on the k-mer (length k, base-4 value i)


def obj_method(ex, e, st, base, attr):
    if base.cls == "AbstractFilter" and attr == "valid":
        return abstract_valid(ex, e, st, base)
    raise U(f"method {attr} of {base.cls}")


def abstract_valid(ex, e, st, base):
    """bio_filter.valid(x) on a user-defined filter: only the DOCUMENTED interface DefaultBioFilter.valid(self, dna_string) is known.
    The call must bind to that signature (C11 interface-conformance obligation); the verdict on an A/C/G/T string is an unknown but
    fixed function of the string, i.e. of (length, base-4 value)."""
    sig = ex.registry.function_ast("dsw.biofilter.DefaultBioFilter.valid")
    pnames = [a.arg for a in sig.args.args][1:]
    ok = len(e.args) + len(e.keywords) == 1 and all(k.arg in pnames for k in e.keywords)
    ex.prove(st, f"call:valid:binds-to-interface:{ex.ordinal('iface')}", z3.BoolVal(ok), e.lineno)
    if not ok:
        ex.fatal = True
        raise U("call of bio_filter.valid does not bind to the documented signature valid(self, %s)" % ", ".join(pnames))
    x = ex.ev(e.args[0] if e.args else e.keywords[0].value, st)
    if not (isinstance(x, Seq) and x.elem == "char"):
        raise U("filter verdict on a non-string")
    from pyvc import speclang
    dna = x.forall(lambda v: z3.Or(v == 65, v == 67, v == 71, v == 84))
    ex.prove(st, f"call:valid:argument-is-a-kmer:{ex.ordinal('iface')}", dna, e.lineno)
    cs = speclang.codes_seq(ex, x)
    return VERDICT(base.fields["__id__"], x.n, specz3.seq_pv(cs, iv(0), cs.n, 4))


def shape_of(ex, e, st):
    kw = {k.arg: k.value for k in e.keywords}
    sh = kw.get("shape", e.args[0] if e.args else None)
    if sh is None:
        raise U("array constructor without a shape")
    v = ex.ev(sh, st)
    dims = [toint(x) for x in v.items] if isinstance(v, Tup) else [toint(v)]
    dt = kw.get("dtype", e.args[1] if len(e.args) > 1 else None)
    dtype = "float"
    if dt is not None:
        t = ex.ev(dt, st)
        dtype = t[1] if isinstance(t, tuple) and t[0] == "type" else "float"
    return dims, dtype


def filled(ex, e, st, value, what):
    """numpy.zeros / numpy.ones (shape, dtype): a fresh array, every entry = value; the dtype is part of the value."""
    ex.trusted_used.add(f"numpy.{what}(shape, dtype): fresh array of that shape filled with {value}")
    dims, dtype = shape_of(ex, e, st)
    from pyvc.sym import const_mat
    for d in dims:
        ex.may_raise(st, "ValueError", d < 0, f"negative-dimension:{ex.ordinal('dim')}", e.lineno)
    if len(dims) == 1:
        out = Seq("nd", "bool" if dtype == "bool" else "int", z3.K(I, iv(value)), dims[0], dtype=dtype)
        out.const_fill = value
        return out
    if len(dims) == 2:
        m = const_mat(value, dims[0], dims[1])
        m.dtype = dtype
        m.const_fill = value
        return m
    raise U("array of more than two dimensions")


@lib("zeros")
def np_zeros(ex, e, st):
    return filled(ex, e, st, 0, "zeros")


@lib("ones")
def np_ones(ex, e, st):
    return filled(ex, e, st, 1, "ones")


@lib("sum")
def np_sum(ex, e, st):
    """numpy.sum of a 1-D int/bool array = ssum(array) (mathematical integer: no int64 overflow assumed)."""
    ex.trusted_used.add("numpy.sum(1-D array) = sum of its entries (no int64 overflow)")
    v = ex.ev(e.args[0], st)
    if isinstance(v, tuple) and v[0] == "mapped":
        v = v[1]
    kw = {k.arg: k.value for k in e.keywords}
    if isinstance(v, (Mat, MatLazy)) and set(kw) == {"axis"} and lit(toint(ex.ev(kw["axis"], st))) == 1:
        cols = lit(v.cols)
        if cols is None or cols > 8:
            raise U("row sums of a wide matrix")
        ex.trusted_used.add("numpy.sum(matrix, axis=1): row sums")
        return LazySeq(v.rows, lambda r_, v=v, cols=cols: z3.Sum([v.at(r_, c_) for c_ in range(cols)]))
    if not isinstance(v, Seq) or e.keywords or len(e.args) != 1:
        raise U("sum of this value")
    if getattr(v, "float_if_empty", False):
        return MaybeFloat(specz3.ssum(v.arr, iv(v.delta), v.start, add(v.start, v.n)), v.n == 0)
    k = lit(v.n)
    if k is not None and k <= 8:
        tot = iv(0)
        for q in range(k):
            tot = add(tot, v.at(q)) if q == 0 else tot + v.at(q)
        return NpInt(tot)
    return NpInt(specz3.ssum(v.arr, iv(v.delta), v.start, add(v.start, v.n)))


def where_indices(ex, st, m, line):
    """numpy.where(mask)[0]: the positions where the mask holds, strictly increasing.  For a literal length <= 4 the result is
    given exactly (closed form); otherwise by the universal facts: in range, mask holds at each, strictly increasing, and the mask is
    false before the first, between consecutive and after the last entry."""
    ex.trusted_used.add("numpy.where(mask)[0]: strictly increasing positions where the mask holds, none missing")
    # the same mask expression denotes the same index array (so ghost code can name the value the program computed)
    ksmall = small_len(m.seq if not isinstance(m.seq, ZipSeq) else m.seq.a) if lit(m.n) is None else lit(m.n)
    if ksmall is not None and ksmall <= 4:
        return _where_indices(ex, st, m, line)        # closed form, specialised to what the path already knows (not memoised)
    jc = z3.Int("where_canon_j")
    key = (m.cond(jc).sexpr(), m.n.sexpr() if z3.is_expr(m.n) else str(m.n))
    memo = ex.__dict__.setdefault("_where_memo", {})
    if key in memo:
        out, facts = memo[key]
        have = {f.get_id() for f in st.pc}
        for f in facts:                      # the defining facts belong to every path that mentions the value
            if f.get_id() not in have:
                st.assume(f)
        return out
    n0 = len(st.pc)
    out = _where_indices(ex, st, m, line)
    out.where_of = m                    # provenance: x in out  <=>  0 <= x < len(mask) and mask[x]   (the positions where the mask holds, none missing)
    memo[key] = (out, list(st.pc[n0:]))
    return out


def small_len(x):
    """literal length, or the static bound of a short sequence (<= 4) whose length is symbolic."""
    k = lit(x.n)
    if k is not None:
        return k
    return getattr(x, "maxlen", None)


def _where_indices(ex, st, m, line):
    k = small_len(m.seq if not isinstance(m.seq, ZipSeq) else m.seq.a) if lit(m.n) is None else lit(m.n)
    if k is not None and k <= 4:
        conds = [z3.And(j < m.n, m.cond(j)) if lit(m.n) is None else m.cond(j) for j in range(k)]
        for j in range(k):                   # use what the path condition already decides (keeps later arithmetic linear)
            if ex.implied(st, conds[j], 800):
                conds[j] = z3.BoolVal(True)
            elif ex.implied(st, z3.Not(conds[j]), 800):
                conds[j] = z3.BoolVal(False)
        cnt = iv(0)
        for c in conds:
            cnt = z3.simplify(cnt + z3.If(c, 1, 0))
        out = fresh_seq("where", "nd", "int", n=z3.simplify(cnt), dtype="int")
        rank = iv(0)
        for j in range(k):
            st.assume(z3.simplify(z3.Implies(conds[j], out.arr[rank] == j)))
            rank = z3.simplify(rank + z3.If(conds[j], 1, 0))
        out.maxlen = k
        return out
    out = fresh_seq("where", "nd", "int", dtype="int")
    st.assume(z3.And(out.n >= 0, out.n <= m.n))
    i, p = fresh("q"), fresh("p")
    a = out.arr
    st.assume(qforall([i], z3.Implies(z3.And(0 <= i, i < out.n), z3.And(a[i] >= 0, a[i] < m.n, m.cond(a[i]))), [a[i]]))
    i2 = fresh("q")
    st.assume(qforall([i2], z3.Implies(z3.And(0 <= i2, i2 + 1 < out.n), a[i2] < a[i2 + 1]), [a[i2]]))
    i5, j5 = fresh("q"), fresh("r")
    st.assume(qforall([i5, j5], z3.Implies(z3.And(0 <= i5, i5 < j5, j5 < out.n), a[i5] < a[j5]), [(a[i5], a[j5])]))
    # no position is missing: false before the first, between neighbours, after the last
    i3, p3 = fresh("q"), fresh("p")
    st.assume(qforall([i3, p3], z3.Implies(z3.And(0 <= i3, i3 + 1 < out.n, a[i3] < p3, p3 < a[i3 + 1]), z3.Not(m.cond(p3))),
                      [(a[i3], m.trigger(p3))]))
    p4 = fresh("p")
    st.assume(qforall([p4], z3.Implies(z3.And(0 <= p4, p4 < m.n, z3.Or(out.n == 0, p4 < a[0], p4 > a[out.n - 1])), z3.Not(m.cond(p4))),
                      [m.trigger(p4)]))
    return out


@lib("where")
def np_where(ex, e, st):
    v = ex.ev(e.args[0], st)
    if isinstance(v, MatLazy) and v.dtype == "bool":
        return where2d(ex, st, v, e.lineno)
    if not isinstance(v, MaskV):
        raise U("where() of something that is not <array> <op> <scalar>")
    return Tup([where_indices(ex, st, v, e.lineno)])


def mask_select(ex, st, base, m, line):
    """a[mask] (boolean-mask indexing, a copy): the entries at the positions where the mask holds, in order."""
    if m.seq is not base and not (m.seq.arr.eq(base.arr) and m.seq.start.eq(base.start)):
        raise U("boolean mask over a different array")
    idx = where_indices(ex, st, m, line)
    k = lit(base.n)
    if k is None or k > 4:
        raise U("boolean-mask indexing of a long array")
    out = fresh_seq("sel", "nd", "int", n=idx.n, dtype=base.dtype)
    for j in range(k):
        st.assume(z3.Implies(j < idx.n, out.arr[j] == base.at(idx.arr[j])))
    out.maxlen = k
    return out


@lib("array")
def np_array(ex, e, st):
    """numpy.array(list of ints[, dtype=int]): a 1-D int array with the same entries.  WITHOUT a dtype, array([]) is float64: every scalar
    derived from it (sum, %) is then a float and cannot be used as an index - the dtype is part of the symbolic value."""
    ex.trusted_used.add("numpy.array(list[, dtype]): same entries; dtype float64 for an empty list unless dtype is given")
    v = ex.ev(e.args[0], st)
    if isinstance(v, tuple) and v[0] == "mapped":
        v = v[1]
    kw = {k.arg: k.value for k in e.keywords}
    if isinstance(v, Tup):
        raise U("array() of a heterogeneous list")
    if not isinstance(v, Seq):
        raise U("array() of a non-list")
    out = Seq("nd", v.elem, v.arr, v.n, v.start, v.delta, dtype="int")
    if "dtype" not in kw:
        out.float_if_empty = True
    return out


@lib("argsort")
def np_argsort(ex, e, st):
    """numpy.argsort of <= 4 DISTINCT values: out[rank(i)] = i where rank(i) = number of smaller values (distinctness is an obligation:
    the order of equal keys is not specified)."""
    ex.trusted_used.add("numpy.argsort (<= 4 distinct values): the permutation that sorts")
    v = ex.ev(e.args[0], st)
    k = small_len(v) if isinstance(v, Seq) else None
    if k is None or k > 4:
        raise U("argsort of a long or non-array value")
    inr = [(j < v.n) if lit(v.n) is None else z3.BoolVal(True) for j in range(k)]
    distinct = z3.And(*[z3.Implies(z3.And(inr[i], inr[j]), v.at(i) != v.at(j)) for i in range(k) for j in range(i + 1, k)]) if k > 1 else z3.BoolVal(True)
    ex.prove(st, f"argsort-distinct-keys:{ex.ordinal('argsort')}", distinct, e.lineno)
    st.assume(distinct)
    out = fresh_seq("argsort", "nd", "int", n=v.n, dtype="int")
    out.maxlen = k
    for i in range(k):
        rank = iv(0)
        for j in range(k):
            if j != i:
                rank = rank + z3.If(z3.And(inr[j], v.at(j) < v.at(i)), 1, 0)
        st.assume(z3.Implies(inr[i], out.arr[rank] == i))
    return out


# ------------------------------------------------------------------------------------------------ numpy.random (global generator), C18
def rng_state(ex, st):
    if "__rng__" not in st.env:
        st.env["__rng__"] = fresh("ambient_rng", specz3.RNG)          # whatever state earlier calls left behind
    return st.env["__rng__"]


def random_method(ex, e, st, attr):
    ex.trusted_used.add("numpy.random.seed / shuffle: the global generator is a deterministic state machine (seed fixes the state; shuffle(x) "
                        "permutes x in place as a function of the state and advances it)")
    if attr == "seed":
        v = ex.ev(e.args[0], st) if e.args else NONE
        if isinstance(v, NoneV):
            st.env["__rng__"] = fresh("entropy_rng", specz3.RNG)
        else:
            st.env["__rng__"] = specz3.rng_seeded(toint(v))
        return NONE
    if attr == "shuffle":
        if not (len(e.args) == 1 and isinstance(e.args[0], ast.Name)):
            raise U("shuffle of something that is not a plain variable")
        name = e.args[0].id
        x = st.env.get(name)
        if not isinstance(x, Seq):
            raise U("shuffle of a non-array")
        state = rng_state(ex, st)
        n = lit(x.n)
        if n != 4 or x.delta != 0 or lit(x.start) != 0:
            raise U("shuffle of an array that is not a 4-entry row")
        new_arr = specz3.rng_shuffle(state, x.arr[0], x.arr[1], x.arr[2], x.arr[3])
        # a permutation of the old entries: same multiset (for <= 8 entries: every value occurs equally often)
        for a in range(n):
            va = x.arr[a]
            st.assume(sum([z3.If(new_arr[b] == va, 1, 0) for b in range(n)]) == sum([z3.If(x.arr[b] == va, 1, 0) for b in range(n)]))
        st.env["__rng__"] = specz3.rng_next(state)
        row_of = getattr(x, "row_of", None)
        if row_of is not None:                       # x is a VIEW of a matrix row: the write reaches the matrix
            mat, r = row_of
            owner = [k for k, v in st.env.items() if v is mat]
            if len(owner) != 1:
                raise U("shuffle through a view whose base cannot be identified")
            ex.frame_store(st, owner[0], e.lineno)
            newm = mat.store_row(r, new_arr)
            st.env[owner[0]] = newm
            st.env[name] = newm.row(r)
        else:
            ex.frame_store(st, name, e.lineno)
            st.env[name] = Seq(x.kind, x.elem, new_arr, x.n, dtype=x.dtype)
        return NONE
    raise U(f"random.{attr}")


# ------------------------------------------------------------------------------------------------ C19: remove_nasty_arc
FLOG = z3.Function("flog", I, z3.RealSort())                                # numpy.log of a positive int, as an opaque real
FDIV = z3.Function("fdiv", z3.RealSort(), z3.RealSort(), z3.RealSort())      # float division, opaque
ILOG4 = z3.Function("ilog4f", I, I)                                          # int(log(n) / log(4)) as the interpreter computes it


def numpy_name(ex, name):
    q = ex.c.get("function") or ex.qualname
    mod = q.split(".")[1] if q.startswith("dsw.") else None
    return name in ex.registry.numpy_names.get(mod, set())


@lib("log")
def np_log(ex, e, st):
    v = toint(ex.ev(e.args[0], st))
    ex.prove(st, f"log-of-positive:{ex.ordinal('log')}", v > 0, e.lineno)
    out = FloatV(FLOG(v))
    out.tag = ("log", v)
    return out


def int_of_float(ex, st, v, line):
    """int(log(n) / log(4)): the only float-to-int conversion modelled.  TRUSTED (checked against the interpreter for every k in 0..31 by
    selftest/library_conformance.py): for n = 4**k, 0 <= k <= 31, the float quotient truncates to exactly k."""
    tag = getattr(v, "tag", None)
    if not (tag and tag[0] == "logratio" and lit(tag[2]) == 4):
        raise U("int() of a float")
    ex.trusted_used.add("int(numpy.log(4**k) / numpy.log(4)) == k for 0 <= k <= 31 (IEEE double arithmetic; conformance-checked for every such k)")
    k_ = z3.Int("k#ilog4")
    st.assume(z3.ForAll([k_], z3.Implies(z3.And(0 <= k_, k_ <= 31), ILOG4(specz3.ipow(iv(4), k_)) == k_), patterns=[specz3.ipow(iv(4), k_)]))
    return ILOG4(tag[1])


@lib("max")
def np_max(ex, e, st):
    """numpy.max of a non-empty integer matrix: an upper bound of every entry that is attained."""
    if not numpy_name(ex, "max") or len(e.args) != 1 or e.keywords:
        raise U("max() with these arguments")
    v = ex.ev(e.args[0], st)
    if not isinstance(v, (Mat, MatLazy)):
        raise U("numpy.max of a non-matrix")
    ex.trusted_used.add("numpy.max(matrix): >= every entry and equal to some entry; ValueError on an empty matrix")
    ex.may_raise(st, "ValueError", z3.Or(v.rows <= 0, v.cols <= 0), f"max-of-empty:{ex.ordinal('max')}", e.lineno)
    m, r_, c_ = fresh("max"), fresh("maxrow"), fresh("maxcol")
    r, c = z3.Int("r#max"), z3.Int("c#max")
    pat = v.arr2[r][c] if isinstance(v, Mat) else None
    body = z3.Implies(z3.And(0 <= r, r < v.rows, 0 <= c, c < v.cols), v.at(r, c) <= m)
    st.assume(z3.ForAll([r, c], body, patterns=[pat]) if pat is not None else z3.ForAll([r, c], body))
    st.assume(z3.And(0 <= r_, r_ < v.rows, 0 <= c_, c_ < v.cols, v.at(r_, c_) == m))
    return m


def where2d(ex, st, m, line):
    ex.trusted_used.add("numpy.where(2-D mask) = (row indices, column indices) of the true entries")
    return Tup([("where2d", m, 0), ("where2d", m, 1)])


@lib("unique")
def np_unique(ex, e, st):
    """numpy.unique(where(mask2d)[0]): the rows of the mask that hold a true entry, strictly increasing."""
    v = ex.ev(e.args[0], st)
    if not (isinstance(v, tuple) and v and v[0] == "where2d" and v[2] == 0) or e.keywords:
        raise U("unique() of this value")
    m = v[1]
    cols = lit(m.cols)
    if cols is None or cols > 8:
        raise U("unique(where(..)[0]) of a wide matrix")
    ex.trusted_used.add("numpy.unique(where(mask2d)[0]): strictly increasing row indices, exactly the rows with a true entry")
    out = fresh_seq("uniq", "nd", "int", dtype="int")
    i, j, r = z3.Int("i#uq"), z3.Int("j#uq"), z3.Int("r#uq")
    anyrow = lambda x: z3.Or(*[m.at(x, c_) != 0 for c_ in range(cols)])
    st.assume(out.n >= 0)
    st.assume(z3.ForAll([i], z3.Implies(z3.And(0 <= i, i < out.n), z3.And(0 <= out.arr[i], out.arr[i] < m.rows, anyrow(out.arr[i]))), patterns=[out.arr[i]]))
    st.assume(z3.ForAll([i, j], z3.Implies(z3.And(0 <= i, i < j, j < out.n), out.arr[i] < out.arr[j]), patterns=[z3.MultiPattern(out.arr[i], out.arr[j])]))
    pos = z3.Function(str(fresh("uniqpos")), I, I)
    st.assume(z3.ForAll([r], z3.Implies(z3.And(specz3_here(r), 0 <= r, r < m.rows, anyrow(r)), z3.And(0 <= pos(r), pos(r) < out.n, out.arr[pos(r)] == r)),
                        patterns=[specz3_here(r)]))
    return out


def specz3_here(v):
    from pyvc.speclang import HERE
    return HERE(v)


@lib("intersect1d")
def np_intersect1d(ex, e, st):
    """numpy.intersect1d(a, b): strictly increasing, every entry occurs in both (the converse - nothing common is missing - is not needed and not stated)."""
    a, b = ex.ev(e.args[0], st), ex.ev(e.args[1], st)
    if not (isinstance(a, Seq) and isinstance(b, Seq)) or e.keywords or len(e.args) != 2:
        raise U("intersect1d() of these values")
    ex.trusted_used.add("numpy.intersect1d(a, b): strictly increasing, each entry occurs in a and in b")
    out = fresh_seq("isect", "nd", "int", dtype="int")
    i, j = z3.Int("i#is"), z3.Int("j#is")
    fa, fb = z3.Function(str(fresh("isecta")), I, I), z3.Function(str(fresh("isectb")), I, I)
    st.assume(out.n >= 0)
    st.assume(z3.ForAll([i], z3.Implies(z3.And(0 <= i, i < out.n), z3.And(0 <= fa(i), fa(i) < a.n, a.at(fa(i)) == out.arr[i],
                                                                        0 <= fb(i), fb(i) < b.n, b.at(fb(i)) == out.arr[i])), patterns=[out.arr[i]]))
    st.assume(z3.ForAll([i, j], z3.Implies(z3.And(0 <= i, i < j, j < out.n), out.arr[i] < out.arr[j]), patterns=[z3.MultiPattern(out.arr[i], out.arr[j])]))
    return out


@lib("argmax")
def np_argmax(ex, e, st):
    """numpy.argmax of a short 1-D array: the FIRST position of the maximum."""
    v = ex.ev(e.args[0], st)
    if not isinstance(v, Seq) or e.keywords or len(e.args) != 1:
        raise U("argmax() of this value")
    n = lit(v.n)
    if n is None or not (1 <= n <= 4):
        raise U("argmax of a long or empty array")
    ex.trusted_used.add("numpy.argmax(1-D array): first position of the maximum")
    out = iv(n - 1)
    for p_ in range(n - 2, -1, -1):
        out = z3.If(z3.And(*[v.at(p_) >= v.at(q_) for q_ in range(p_ + 1, n)]), iv(p_), out)
    return out


@lib("union1d")
def np_union1d(ex, e, st):
    """numpy.union1d(a, b): some 1-D integer array (only its length >= 0 is used here; the content is not modelled)."""
    for a_ in e.args:
        ex.ev(a_, st)
    if len(e.args) != 2 or e.keywords:
        raise U("union1d() with these arguments")
    ex.trusted_used.add("numpy.union1d(a, b): a 1-D array (only len(..) >= 0 is used)")
    out = fresh_seq("union", "nd", "int", dtype="int")
    st.assume(out.n >= 0)
    return out


@lib("min")
def np_min(ex, e, st):
    """numpy.min of a non-empty integer matrix: a lower bound of every entry that is attained."""
    if not numpy_name(ex, "min") or len(e.args) != 1 or e.keywords:
        raise U("min() with these arguments")
    v = ex.ev(e.args[0], st)
    if not isinstance(v, (Mat, MatLazy)):
        raise U("numpy.min of a non-matrix")
    ex.trusted_used.add("numpy.min(matrix): <= every entry and equal to some entry; ValueError on an empty matrix")
    ex.may_raise(st, "ValueError", z3.Or(v.rows <= 0, v.cols <= 0), f"min-of-empty:{ex.ordinal('min')}", e.lineno)
    m, r_, c_ = fresh("min"), fresh("minrow"), fresh("mincol")
    r, c = z3.Int("r#min"), z3.Int("c#min")
    pat = v.arr2[r][c] if isinstance(v, Mat) else None
    body = z3.Implies(z3.And(0 <= r, r < v.rows, 0 <= c, c < v.cols), v.at(r, c) >= m)
    st.assume(z3.ForAll([r, c], body, patterns=[pat]) if pat is not None else z3.ForAll([r, c], body))
    st.assume(z3.And(0 <= r_, r_ < v.rows, 0 <= c_, c_ < v.cols, v.at(r_, c_) == m))
    return m
