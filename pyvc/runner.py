"""Proof-tier driver (filled in as contracts land)."""


def run_property(pid, P, tier, repo, seed):
    raise NotImplementedError


def replay(pid, rec, repo):
    print("proof replay records carry the failed obligation and the solver output; see the file")
    return 1
