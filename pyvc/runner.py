"""Proof-tier driver: for a property, verify every function of its closure against its sidecar contract (one unit per
(function, split binding), units in a 16-process pool), aggregate named obligations, apply the vacuity guards."""
import itertools
import json
import os
import sys
import time
import traceback


def units_of(contract):
    split = contract.get("split", {})
    if not split:
        return [{}]
    keys = sorted(split)
    return [dict(zip(keys, vals)) for vals in itertools.product(*[split[k] for k in keys])]


def run_frame_unit(repo, target):
    """static frame / purity / verbose-shape obligations (pyvc/frame.py) for one function or for every public function ('frame:*')."""
    from pyvc.registry import Registry
    from pyvc import frame
    t0 = time.time()
    reg = Registry(repo)
    res, functions = frame.analyse_repo(reg)
    want = target.split(":", 1)[1]
    out = [r.as_dict() for r in res if want == "*" or r.name.startswith(want + ":")]
    return {"unit": target, "split": {}, "results": out, "trusted": ["numpy view-versus-copy table of pyvc/frame.py"], "called": [],
            "wall": time.time() - t0, "error": None if out else f"crash: no function matches {want}", "canary": False}


def run_unit(args):
    repo, qualname, split, canary = args
    if qualname.startswith("frame:"):
        return run_frame_unit(repo, qualname)
    here = os.path.dirname(os.path.dirname(os.path.abspath(__file__)))
    if here not in sys.path:
        sys.path.insert(0, here)
    from pyvc.registry import Registry
    from pyvc.engine import Exec, Unsupported
    t0 = time.time()
    try:
        reg = Registry(repo)
        c = reg.contracts[qualname]
        target = c.get("function", qualname)
        fn = reg.function_ast(target)
        if canary:
            c = dict(c)
            c["ensures"] = {"canary": "False"}
            c["raises"] = {}
        ex = Exec(qualname, fn, c, reg, split=split)
        if canary:
            ex.z3_timeout_ms, ex.cvc5_timeout_s, ex.retries = 3000, 0, 0        # a canary only has to FAIL to be proved
        res = ex.run()
        return {"unit": qualname, "split": split, "results": [r.as_dict() for r in res], "trusted": sorted(ex.trusted_used),
                "called": sorted(getattr(ex, "called", [])), "wall": time.time() - t0, "error": None, "canary": canary}
    except Unsupported as u:
        fatal = []
        try:
            if getattr(ex, "fatal", False):
                fatal = [r.as_dict() for r in ex.results if r.status != "discharged" and (":purity:" in r.name or ":binds-to-interface:" in r.name)]
        except NameError:
            pass
        return {"unit": qualname, "split": split, "results": fatal, "trusted": [], "called": [], "wall": time.time() - t0,
                "error": None if fatal else f"unsupported: {u}", "canary": canary}
    except Exception:
        return {"unit": qualname, "split": split, "results": [], "trusted": [], "called": [], "wall": time.time() - t0,
                "error": "crash: " + traceback.format_exc()[-1500:], "canary": canary}


def verify(repo, qualnames, procs=16, canaries=True):
    from pyvc.registry import Registry
    reg = Registry(repo)
    jobs = []
    for q in qualnames:
        if q.startswith("frame:"):
            jobs.append((repo, q, {}, False))
            continue
        c = reg.contracts[q]
        us = units_of(c)
        for u in us:
            jobs.append((repo, q, u, False))
        if canaries:
            jobs.append((repo, q, us[0], True))
    import multiprocessing
    ctx = multiprocessing.get_context("fork")
    with ctx.Pool(min(procs, max(1, len(jobs)))) as pool:
        outs = pool.map(run_unit, jobs, chunksize=1)
    return reg, outs


def run_property(pid, P, tier, repo, seed):
    t0 = time.time()
    targets = P["proof"]
    reg, outs = verify(repo, targets, procs=int(os.environ.get("VERIF_PROCS", "16")))
    obligations, refuted, undecided, errors = [], [], [], []
    by_backend, trusted, solver_s = {}, set(), 0.0
    canary_ok = canary_total = 0
    demoted = set(P.get("demoted_obligations", []))
    unbound = {o["unit"] for o in outs if (o["error"] and o["error"].startswith("unsupported"))
               or any(":purity:" in r["name"] or ":binds-to-interface:" in r["name"] for r in o["results"])}
    seen_unbound = set()
    for o in outs:
        if o["canary"]:
            if o["unit"] in unbound:
                continue
            canary_total += 1
            # the canary ('ensures False') must NOT be provable on at least one returning path
            if o["error"] is None and any(r["status"] != "discharged" and ":ensures:canary" in r["name"] for r in o["results"]):
                canary_ok += 1
            elif o["error"] is None and not any(":ensures:canary" in r["name"] for r in o["results"]):
                canary_ok += 1 if any(":raise" in r["name"] for r in o["results"]) else 0
            continue
        if o["error"]:
            if o["error"].startswith("unsupported"):
                if o["unit"] in seen_unbound:
                    continue
                seen_unbound.add(o["unit"])
                undecided.append({"obligation": o["unit"] + ":<binding>", "reason": o["error"], "binding": True})
            else:
                errors.append(f"{o['unit']}: {o['error']}")
            continue
        trusted |= set(o["trusted"])
        if not o["results"]:
            errors.append(f"{o['unit']} {o['split']}: zero obligations generated (vacuity guard)")
        for r in o["results"]:
            if r["name"] in demoted:
                continue
            obligations.append(r)
            solver_s += r["seconds"]
            if r["status"] == "discharged":
                by_backend[r["backend"]] = by_backend.get(r["backend"], 0) + 1
            else:
                refuted.append({"obligation": r["name"], "reason": r["detail"], "line": r["line"], "status": r["status"],
                                "function": o["unit"], "split": o["split"], "replayed": False})
    # a failed obligation: look for a REAL failing input by running the same contract concretely on the real function
    searched = {}
    seen_names, uniq = set(), []
    for r in refuted:                       # the same named obligation on several paths is one finding
        if r["obligation"] not in seen_names:
            seen_names.add(r["obligation"])
            uniq.append(r)
    refuted = uniq
    for r in refuted:
        if r["function"].startswith("frame:"):
            continue                        # a static frame / purity finding names the offending line; there is no input to search for
        key = (r["function"], json.dumps(r["split"], sort_keys=True))
        if key not in searched:
            searched[key] = native_search(repo, reg.contracts[r["function"]], r["split"])
        found = searched[key]
        r["search"] = {"inputs_tried": found.get("tried"), "error": found.get("error")}
        if found.get("failing"):
            r["replayed"] = True
            r["input"] = found["failing"]["input"]
            r["receiver"] = found["failing"].get("receiver")
            r["observed"] = found["failing"]["observed"]
            r["violated_clause"] = found["failing"]["clause"]
            r["contract"] = r["function"]
    if canary_total and canary_ok != canary_total:
        errors.append(f"vacuity guard: {canary_total - canary_ok} of {canary_total} 'ensures False' canaries were provable (contradictory precondition or engine unsoundness)")
    if os.environ.get("PYVC_WRITE_HINTS"):
        hp = os.path.join(os.path.dirname(os.path.abspath(__file__)), "attempt_hints.json")
        try:
            hints = json.load(open(hp))
        except Exception:
            hints = {}
        for r in obligations:
            if r.get("attempt"):
                hints[r["name"]] = r["attempt"]
            elif r["name"] in hints and r["status"] == "discharged" and r["backend"] == "z3":
                del hints[r["name"]]
        json.dump(hints, open(hp, "w"), indent=0, sort_keys=True)
    disc = sum(1 for r in obligations if r["status"] == "discharged")
    slow = sorted(obligations, key=lambda r: -r["seconds"])[:5]
    fun_infos = []
    for q in targets:
        if q.startswith("frame:"):
            fun_infos.append({"function": q, "contract": "static frame / purity / verbose-shape analysis (pyvc/frame.py)",
                              "obligations": sum(1 for r in obligations if r["backend"] == "static")})
            continue
        c = reg.contracts[q]
        try:
            info = reg.source_info(c.get("function", q))
        except Exception as e:  # noqa
            info = {"function": q, "error": str(e)}
        info["contract"] = q
        info["obligations"] = sum(1 for r in obligations if r["name"].startswith(q + ":") or r["name"].startswith(q + "["))
        fun_infos.append(info)
    return {
        "obligations": len(obligations), "discharged": disc, "refuted": refuted,
        "undecided": [u for u in undecided if not u.get("binding")], "binding_failures": [u for u in undecided if u.get("binding")],
        "errors": errors,
        "functions": fun_infos, "by_backend": by_backend, "solver_seconds": round(solver_s, 2),
        "slowest": [{"name": r["name"], "seconds": r["seconds"], "backend": r["backend"]} for r in slow],
        "checker_cmd": f"./check {pid} --tier {tier}  (pyvc: ast of $REPO/dsw -> VCs -> z3 {z3_version()} [auto_config=false, mbqi=false, {os.environ.get('PYVC_Z3_TIMEOUT_MS', '20000')} ms], cvc5 for z3's unknowns)",
        "trusted_base": sorted(trusted), "vacuity": {"canaries": canary_total, "canaries_refuted_as_required": canary_ok},
        "samples": [r["name"] for r in obligations[:3]] + [r["name"] for r in obligations[-3:]],
        "not_discharged": [r["name"] for r in obligations if r["status"] != "discharged"],
        "wall_s": round(time.time() - t0, 2),
    }


def z3_version():
    import z3
    return z3.get_version_string()


def native_search(repo, c, split, one_input=None, receiver=None):
    import subprocess
    here = os.path.dirname(os.path.dirname(os.path.abspath(__file__)))
    req = {"module": c["module"], "contract": c["name"], "split": split}
    if one_input is not None:
        req["input"] = one_input
        req["receiver"] = receiver
    env = dict(os.environ)
    env["PYTHONPATH"] = repo + os.pathsep + here
    env["PYTHONDONTWRITEBYTECODE"] = "1"
    try:
        p = subprocess.run([os.environ.get("VERIF_NATIVE_PY", "/venv/bin/python"), "-m", "pyvc.concrete", json.dumps(req)],
                           cwd=here, env=env, capture_output=True, text=True, timeout=600)
        if p.returncode != 0:
            return {"error": (p.stderr or p.stdout)[-500:]}
        return json.loads(p.stdout.strip().split("\n")[-1])
    except Exception as e:  # noqa
        return {"error": str(e)[:300]}


def replay(pid, rec, repo):
    print("failed obligation:", rec.get("obligation"))
    print("solver output:", (rec.get("reason") or "")[:400])
    if rec.get("input") is None:
        print("no concrete input is attached to this record (no-failing-input-found); re-run ./check", pid)
        return 1
    from pyvc.registry import Registry
    reg = Registry(repo)
    found = native_search(repo, reg.contracts[rec["contract"]], rec.get("split", {}), one_input=rec["input"], receiver=rec.get("receiver"))
    if found.get("failing"):
        print("replay on the real code:", rec["input"], "->", found["failing"]["observed"], "; violates", found["failing"]["clause"])
        print(f"VIOLATION property={pid} replay=<this file>")
        return 1
    print("replay: the contract holds for this input on the current tree", found.get("error", ""))
    return 0


def main():
    """developer entry: python3-vt -m pyvc.runner dsw.operation.calculus_division [...]"""
    repo = os.environ.get("REPO", "/repo")
    names = sys.argv[1:]
    t0 = time.time()
    reg, outs = verify(repo, names)
    tot = bad = 0
    for o in outs:
        if o["error"]:
            print("ERROR", o["unit"], o["split"], "canary" if o["canary"] else "", o["error"])
            continue
        if o["canary"]:
            nd = [r for r in o["results"] if r["status"] != "discharged"]
            print(f"canary {o['unit']}: {len(nd)} obligations not provable (must be > 0)")
            continue
        for r in o["results"]:
            tot += 1
            if r["status"] != "discharged":
                bad += 1
                print("  NOT DISCHARGED", r["name"], r["status"], r["seconds"], "line", r["line"], r["detail"][:300])
            elif r["seconds"] > 2:
                print("  slow", r["name"], r["seconds"], r["backend"])
        print(f"unit {o['unit']} {o['split']}: {len(o['results'])} obligations, wall {o['wall']:.1f}s")
    print(f"TOTAL obligations {tot}, not discharged {bad}, wall {time.time() - t0:.1f}s")


if __name__ == "__main__":
    main()
