"""pyvc: forward symbolic execution of the REAL function ASTs of $REPO/dsw, loops cut at their invariants, calls replaced by
callee contracts; one named obligation per assertion, discharged by z3 (cvc5 for z3's unknowns).  DESIGN.md section 1."""
import ast
import os
import subprocess
import tempfile
import time

import z3

from pyvc import specz3
from pyvc.sym import (I, B, A, A2, iv, add, sub, lit, fresh, fresh_seq, Seq, Tup, Mat, Row, Obj, FloatV, NONE, NoneV, const_str,
                      const_list, seq_eq, const_mat, MaskV, ZipSeq, MaybeFloat, PairSeq, LazySeq, MatLazy, DictV, NpInt, CList, MemList)

Z3_TIMEOUT_MS = int(os.environ.get("PYVC_Z3_TIMEOUT_MS", "20000"))
CVC5_TIMEOUT_S = int(os.environ.get("PYVC_CVC5_TIMEOUT_S", "40"))
FEAS_TIMEOUT_MS = 1500
MAX_FAILURES_PER_UNIT = 6
RELEVANCY0_FIRST = os.environ.get("PYVC_RELEVANCY0_FIRST", "0") == "1"


def _load_hints():
    p_ = os.path.join(os.path.dirname(os.path.abspath(__file__)), "attempt_hints.json")
    try:
        import json
        return json.load(open(p_))
    except Exception:
        return {}


HINTS = _load_hints()


class Unsupported(Exception):
    """syntax / library call the engine has no semantics for, or a sidecar that no longer binds: function is UNDECIDED."""


class State:
    def __init__(self):
        self.pc = []
        self.env = {}
        self.aliased = set()
        self.stash = {}

    def clone(self):
        t = State()
        t.pc = list(self.pc)
        t.env = dict(self.env)
        t.aliased = set(self.aliased)
        t.stash = dict(self.stash)
        return t

    def assume(self, c):
        if isinstance(c, bool):
            c = z3.BoolVal(c)
        self.pc.append(c)


class Outcome:
    def __init__(self, kind, st, value=None, exc=None, line=None):
        self.kind, self.st, self.value, self.exc, self.line = kind, st, value, exc, line


class Result:
    def __init__(self, name, status, backend, seconds, line=None, detail=""):
        self.name, self.status, self.backend, self.seconds, self.line, self.detail = name, status, backend, seconds, line, detail

    def as_dict(self):
        return dict(name=self.name, status=self.status, backend=self.backend, seconds=round(self.seconds, 3), line=self.line, detail=self.detail,
                    attempt=getattr(self, "attempt", None))


def make_solver(timeout_ms):
    s = z3.Solver()
    s.set("timeout", timeout_ms)
    s.set("auto_config", False)
    s.set("smt.mbqi", False)
    return s


def is_opaque(v):
    return isinstance(v, tuple) and len(v) >= 1 and v[0] == "opaque"


def tobool(v):
    if isinstance(v, bool):
        return z3.BoolVal(v)
    if isinstance(v, NpInt):
        return v.value != 0
    if isinstance(v, DictV):
        return v.order.n > 0          # a dict is true exactly when it has a key
    if z3.is_expr(v) and z3.is_bool(v):
        return v
    if z3.is_expr(v) and z3.is_int(v):
        return v != 0
    if isinstance(v, Seq):
        return v.n > 0
    if isinstance(v, NoneV):
        return z3.BoolVal(False)
    raise Unsupported(f"truth value of {v!r}")


def toint(v):
    if isinstance(v, (MaybeFloat, NpInt)):
        return v.value
    if isinstance(v, bool):
        return iv(int(v))
    if isinstance(v, int):
        return iv(v)
    if z3.is_expr(v) and z3.is_bool(v):
        return z3.If(v, iv(1), iv(0))
    if z3.is_expr(v) and z3.is_int(v):
        return v
    raise Unsupported(f"int value of {v!r}")


class Exec:
    """one verification unit: (function AST, contract, split binding)."""

    def __init__(self, qualname, fn, contract, registry, split=None, source_file=None):
        self.qualname, self.fn, self.c, self.registry = qualname, fn, contract, registry
        self.split = split or {}
        self.results = []
        self.loop_ordinal = 0
        self.counters = {}
        self.pending = []           # raised outcomes produced inside expression evaluation
        self.axioms = []            # proved lemmas / trusted library facts (quantified, with triggers)
        self.trusted_used = set()
        self.quiet = 0
        self.tag = ("[" + ",".join(f"{k}={v}" for k, v in self.split.items()) + "]") if self.split else ""
        self.z3_timeout_ms, self.cvc5_timeout_s, self.retries = Z3_TIMEOUT_MS, CVC5_TIMEOUT_S, 4
        self.failed_names = set()
        self.extra_unfold = {}
        self.ghost_names = set()
        for lem in contract.get("lemmas", []):
            self.axioms += registry.lemma_axioms(lem)
        loops = sorted([x for x in ast.walk(fn) if isinstance(x, (ast.For, ast.While))], key=lambda x: (x.lineno, x.col_offset))
        self.loop_ids = {id(x): k + 1 for k, x in enumerate(loops)}     # source order; ghost loops are keyed "<anchor>#k"
        raises_ = sorted([x for x in ast.walk(fn) if isinstance(x, ast.Raise)], key=lambda x: (x.lineno, x.col_offset))
        self.raise_ids = {id(x): k + 1 for k, x in enumerate(raises_)}
        self._ghost_cache = {}
        if contract.get("n_loops") is not None and contract["n_loops"] != len(loops):
            self.binding_error = f"function has {len(loops)} loops, the sidecar was written for {contract['n_loops']} (sidecar no longer binds)"
        else:
            self.binding_error = None

    # ------------------------------------------------------------------ solving
    def _query(self, st, extra):
        base = list(st.pc) + list(extra) + list(self.axioms)
        return base + specz3.unfold_instances(base, extra=self.extra_unfold)

    def feasible(self, st):
        s = make_solver(FEAS_TIMEOUT_MS)
        s.add(*self._query(st, []))
        return s.check() != z3.unsat

    def prove(self, st, name, goal, line=None):
        if self.quiet:
            return
        if isinstance(goal, bool):
            goal = z3.BoolVal(goal)
        full = f"{self.qualname}{self.tag}:{name}"
        g = z3.simplify(goal)
        if z3.is_true(g):
            self.results.append(Result(full, "discharged", "simplify", 0.0, line))
            return
        if any(goal.eq(p_) for p_ in st.pc):
            self.results.append(Result(full, "discharged", "assumption", 0.0, line))       # the goal is literally one of the hypotheses
            return
        asserts = self._query(st, [z3.Not(goal)])
        t = time.time()
        r, s = None, None
        if full in self.failed_names:
            # the same named obligation already failed on another path of this unit: it stays failed, no need to burn the budgets again
            self.results.append(Result(full, "failed", "skipped", 0.0, line, "same obligation already failed on another path"))
            return
        if len(self.failed_names) >= MAX_FAILURES_PER_UNIT:
            # the unit is red many times over: further obligations are reported as not attempted instead of spending the solver budgets on each
            self.results.append(Result(full, "failed", "skipped", 0.0, line, f"not attempted: {MAX_FAILURES_PER_UNIT} obligations of this unit already failed"))
            return
        if len(self.failed_names) >= 1 and self.retries:     # after the first failure: short budgets (the unit is red anyway)
            self.z3_timeout_ms, self.cvc5_timeout_s, self.retries = min(self.z3_timeout_ms, 6000), 0, 1
        # E-matching is order-sensitive: an obligation counts as discharged when ANY attempt answers unsat (sound), so a
        # verdict does not flip with the scheduling of fresh names; a second and third seed are tried before cvc5.
        order = list(range(1 + self.retries))
        hint = HINTS.get(full)
        if hint in order and hint != 0:          # start with the configuration that discharged this obligation last time (pure speed-up)
            order.remove(hint)
            order.insert(0, hint)
        for attempt in order:
            s = make_solver(self.z3_timeout_ms if attempt or not self.retries else min(self.z3_timeout_ms, 5000))
            if attempt == (0 if RELEVANCY0_FIRST else 1):
                s.set("smt.relevancy", 0)        # E-matching on every ground term, not only the 'relevant' ones
            elif attempt:
                s.set("random_seed", attempt)
                s.set("smt.random_seed", attempt)
                if attempt >= 3:
                    s.set("smt.relevancy", 0 if attempt == 3 else 2)
                    s.set("timeout", 2 * self.z3_timeout_ms)          # last resorts: long budget (only reached when everything else failed)
            s.add(*(asserts if attempt not in (2, 4) else list(reversed(asserts))))
            r = s.check()
            if r != z3.unknown:
                break
        dt = time.time() - t
        if r == z3.unsat:
            self.results.append(Result(full, "discharged", "z3", dt, line))
            self.results[-1].attempt = attempt
            return
        detail = ""
        if r == z3.sat:
            detail = "z3: sat (counter-model of precondition & path & not obligation)"
            try:
                detail += " " + str(s.model())[:600]
            except Exception:
                pass
            self.results.append(Result(full, "refuted", "z3", dt, line, detail))
            self.failed_names.add(full)
            return
        # z3 unknown: cvc5 on the same assertions (printed from a solver that has not run: check() rewrites them in place)
        reason = s.reason_unknown()
        s = make_solver(1000)
        s.add(*asserts)
        if os.environ.get("PYVC_DUMP"):
            open(os.path.join(os.environ["PYVC_DUMP"], full.replace("/", "_").replace(":", "_") + ".smt2"), "w").write(s.to_smt2())
        t = time.time()
        r2, out = run_cvc5(s.to_smt2(), self.cvc5_timeout_s)
        dt2 = time.time() - t
        if r2 == "unsat":
            self.results.append(Result(full, "discharged", "cvc5", dt + dt2, line))
        else:
            self.results.append(Result(full, "failed", "z3+cvc5", dt + dt2, line,
                                       f"z3: unknown ({reason}); cvc5: {r2} {out[:200]}"))
            self.failed_names.add(full)

    # ------------------------------------------------------------------ exceptions inside expressions
    def may_raise(self, st, exc, cond, label, line=None):
        """operation raises `exc` when cond holds: fork if the contract allows exc, otherwise exception-freedom obligation."""
        if isinstance(cond, bool):
            cond = z3.BoolVal(cond)
        if z3.is_false(z3.simplify(cond)):      # (the simplified form is only used for this test: z3's simplifier may introduce
            return                              #  pseudo-boolean operators that other solvers do not read)
        if (exc in self.c.get("raises", {}) or exc in self.c.get("raises_only_when", {})) and not self.quiet and not getattr(self, "in_ghost", 0):
            t = st.clone()
            t.assume(cond)
            self.pending.append(Outcome("raise", t, exc=exc, line=line))
        else:
            self.prove(st, f"no-{exc}:{label}", z3.Not(cond), line)
        st.assume(z3.Not(cond))

    def ordinal(self, kind):
        self.counters[kind] = self.counters.get(kind, 0) + 1
        return self.counters[kind]

    # ------------------------------------------------------------------ expressions
    def ev(self, e, st):
        m = getattr(self, "ev_" + type(e).__name__, None)
        if m is None:
            raise Unsupported(f"expression {type(e).__name__} at line {getattr(e, 'lineno', '?')}")
        return m(e, st)

    def ev_Constant(self, e, st):
        v = e.value
        if isinstance(v, bool):
            return z3.BoolVal(v)
        if isinstance(v, int):
            return iv(v)
        if isinstance(v, str):
            return const_str(v)
        if v is None:
            return NONE
        if isinstance(v, float):
            return FloatV(("const", v))
        raise Unsupported(f"constant {v!r}")

    def ev_Name(self, e, st):
        if e.id in st.env:
            return st.env[e.id]
        if e.id in ("str", "int", "list", "bool"):
            return ("type", e.id)
        mod_value = self.registry.module_level(self.qualname if not self.c.get("function") else self.c["function"], e.id)
        if mod_value is not None:
            kind, node = mod_value
            if kind == "constant":
                return self.ev(node, st)
            # C20 purity: a call must be a function of its arguments; module-level mutable state is hidden history
            self.results.append(Result(f"{self.qualname}{self.tag}:purity:reads-module-level-mutable-state:{e.id}", "failed", "static", 0.0,
                                       e.lineno, f"`{e.id}` is a module-level object assigned at line {node.lineno}; the result of the call depends on state "
                                                 "that earlier calls can change"))
            self.fatal = True
        raise Unsupported(f"name {e.id} is not bound (line {e.lineno})")

    def ev_Tuple(self, e, st):
        return Tup([self.ev(x, st) for x in e.elts])

    def ev_List(self, e, st):
        vals = [self.ev(x, st) for x in e.elts]
        if all(z3.is_expr(v) and z3.is_int(v) for v in vals):
            return const_list(vals)
        if all(isinstance(v, Seq) and v.kind == "str" and lit(v.n) == 1 for v in vals) and vals:
            s = const_list([v.at(0) for v in vals])
            s.elem = "char"
            return s
        return Tup(vals)

    def ev_UnaryOp(self, e, st):
        v = self.ev(e.operand, st)
        if isinstance(e.op, ast.USub):
            if isinstance(v, Mat) and getattr(v, "const_fill", None) is not None:
                m = const_mat(-v.const_fill, v.rows, v.cols)
                m.const_fill = -v.const_fill
                return m
            if isinstance(v, Seq) and getattr(v, "const_fill", None) is not None:
                out = Seq(v.kind, v.elem, z3.K(I, iv(-v.const_fill)), v.n, dtype=v.dtype)
                out.const_fill = -v.const_fill
                return out
            return -toint(v)
        if isinstance(e.op, ast.Not):
            return z3.Not(tobool(v))
        raise Unsupported("unary op")

    def ev_BoolOp(self, e, st):
        vals = []
        guards = []
        for sub_e in e.values:
            n0 = len(st.pc)
            for g in guards:
                st.pc.append(g)
            n1 = len(st.pc)
            v = tobool(self.ev(sub_e, st))
            new = st.pc[n1:]
            del st.pc[n0:]
            g_all = z3.And(*guards) if guards else None
            for p in new:
                st.pc.append(z3.Implies(g_all, p) if g_all is not None else p)
            vals.append(v)
            vs_ = z3.simplify(v)
            if (isinstance(e.op, ast.And) and z3.is_false(vs_)) or (isinstance(e.op, ast.Or) and z3.is_true(vs_)):
                break           # Python's short circuit: the remaining operands are not evaluated (they may not even be well-defined)
            guards.append(v if isinstance(e.op, ast.And) else z3.Not(v))
        return z3.And(*vals) if isinstance(e.op, ast.And) else z3.Or(*vals)

    def set_union_equals(self, e, st):
        """list(set(a) | set(b)) == b / != b  for b = four consecutive integers starting at a non-negative multiple of 4 (the successor list of a vertex).
        TRUSTED (conformance-checked): CPython iterates a set of small non-negative ints that is exactly such a block in ascending order, so the list
        equals b exactly when every element of a occurs in b; with any other element present the lists differ in content."""
        if not (len(e.ops) == 1 and isinstance(e.ops[0], (ast.Eq, ast.NotEq)) and isinstance(e.left, ast.Call) and isinstance(e.left.func, ast.Name)
                and e.left.func.id == "list" and len(e.left.args) == 1 and isinstance(e.left.args[0], ast.BinOp) and isinstance(e.left.args[0].op, ast.BitOr)):
            return None
        l_, r_ = e.left.args[0].left, e.left.args[0].right
        ok = all(isinstance(x, ast.Call) and isinstance(x.func, ast.Name) and x.func.id == "set" and len(x.args) == 1 and isinstance(x.args[0], ast.Name)
                 for x in (l_, r_))
        if not ok or not (isinstance(e.comparators[0], ast.Name) and e.comparators[0].id == r_.args[0].id):
            return None
        a, b = self.ev(l_.args[0], st), self.ev(r_.args[0], st)
        if not (isinstance(a, Seq) and isinstance(b, Seq) and lit(b.n) == 4):
            raise Unsupported("set union comparison of this shape")
        self.trusted_used.add("list(set(a) | set(b)) == b, for b four consecutive ints from a multiple of 4: exactly when every element of a is in b (CPython set order)")
        self.prove(st, f"set-union-block:{self.ordinal('setu')}", z3.And(b.at(0) >= 0, b.at(0) % 4 == 0, *[b.at(j) == b.at(0) + j for j in range(1, 4)]), e.lineno)
        m_ = getattr(a, "where_of", None)
        inb = lambda x: z3.Or(*[b.at(j) == x for j in range(4)])
        if m_ is not None:
            w = z3.Int("w#su")
            from pyvc.sym import qforall
            seq_ = m_.seq
            trig = [seq_.arr[w]] if isinstance(seq_, Seq) and lit(seq_.start) == 0 else None
            subset = qforall([w], z3.Implies(z3.And(0 <= w, w < m_.n, m_.cond(w)), inb(w)), trig)
        else:
            n_ = lit(a.n)
            if n_ is None or n_ > 8:
                raise Unsupported("set union comparison with a long symbolic list")
            subset = z3.And(*[inb(a.at(j)) for j in range(n_)]) if n_ else z3.BoolVal(True)
        return subset if isinstance(e.ops[0], ast.Eq) else z3.Not(subset)

    def ev_Compare(self, e, st):
        special = self.set_union_equals(e, st)
        if special is not None:
            return special
        left = self.ev(e.left, st)
        out = []
        for op, right_e in zip(e.ops, e.comparators):
            right = self.ev(right_e, st)
            out.append(self.compare(op, left, right, st, e.lineno))
            left = right
        return out[0] if len(out) == 1 else z3.And(*out)

    def compare(self, op, l, r, st, line):
        if isinstance(op, (ast.Is, ast.IsNot)):
            isnone = isinstance(l, NoneV) == isinstance(r, NoneV) if (isinstance(l, NoneV) or isinstance(r, NoneV)) else None
            if isnone is None:
                raise Unsupported("is on non-None")
            return z3.BoolVal(isnone if isinstance(op, ast.Is) else not isnone)
        if isinstance(l, tuple) and l and l[0] == "type" or isinstance(r, tuple) and r and r[0] == "type":
            same = (l == r)
            return z3.BoolVal(same if isinstance(op, ast.Eq) else not same)
        if isinstance(op, (ast.In, ast.NotIn)):
            res = self.contains(r, l, st, line)
            return res if isinstance(op, ast.In) else z3.Not(res)
        if isinstance(l, NoneV) or isinstance(r, NoneV):
            both = isinstance(l, NoneV) and isinstance(r, NoneV)
            if isinstance(op, ast.Eq):
                return z3.BoolVal(both)
            if isinstance(op, ast.NotEq):
                return z3.BoolVal(not both)
            raise Unsupported("ordering with None")
        if isinstance(l, Seq) and isinstance(r, Seq):
            if isinstance(op, ast.Eq):
                return seq_eq(l, r)
            if isinstance(op, ast.NotEq):
                return z3.Not(seq_eq(l, r))
            if l.kind == "str" and r.kind == "str":
                self.prove(st, f"single-char-compare:{self.ordinal('cmp')}", z3.And(l.n == 1, r.n == 1), line)
                a, b = l.at(0), r.at(0)
                return {ast.Lt: a < b, ast.LtE: a <= b, ast.Gt: a > b, ast.GtE: a >= b}[type(op)]
            raise Unsupported("sequence ordering")
        if isinstance(l, FloatV) or isinstance(r, FloatV):
            return self.float_compare(op, l, r)
        if isinstance(l, (Mat, MatLazy)) and not isinstance(r, (Mat, MatLazy, Seq, ZipSeq, LazySeq)):
            c = toint(r)                  # element-wise comparison of a numpy matrix with a scalar: a boolean matrix
            f = {ast.Eq: lambda v: v == c, ast.NotEq: lambda v: v != c, ast.Lt: lambda v: v < c, ast.LtE: lambda v: v <= c,
                 ast.Gt: lambda v: v > c, ast.GtE: lambda v: v >= c}[type(op)]
            return MatLazy(l.rows, l.cols, lambda r_, c_, l=l, f=f: z3.If(f(l.at(r_, c_)), iv(1), iv(0)), "bool")
        if (isinstance(l, (ZipSeq, LazySeq)) or (isinstance(l, Seq) and l.kind == "nd")) and not isinstance(r, (Seq, ZipSeq, LazySeq)):
            c = toint(r)
            f = {ast.Eq: lambda v: v == c, ast.NotEq: lambda v: v != c, ast.Lt: lambda v: v < c, ast.LtE: lambda v: v <= c,
                 ast.Gt: lambda v: v > c, ast.GtE: lambda v: v >= c}[type(op)]
            return MaskV(l, f)            # element-wise comparison of a numpy array with a scalar
        if isinstance(l, Seq) or isinstance(r, Seq):
            if isinstance(op, ast.Eq):
                return z3.BoolVal(False)
            if isinstance(op, ast.NotEq):
                return z3.BoolVal(True)
            raise Unsupported("ordering between a sequence and a scalar")
        if z3.is_expr(l) and z3.is_bool(l) and z3.is_expr(r) and z3.is_bool(r) and isinstance(op, (ast.Eq, ast.NotEq)):
            return l == r if isinstance(op, ast.Eq) else l != r
        a, b = toint(l), toint(r)
        return {ast.Eq: a == b, ast.NotEq: a != b, ast.Lt: a < b, ast.LtE: a <= b, ast.Gt: a > b, ast.GtE: a >= b}[type(op)]

    fmul = z3.Function("fmul", I, I, z3.RealSort())      # fmul(float id, n) = the float product, as an opaque real

    def float_compare(self, op, l, r):
        for x, y, flip in ((l, r, False), (r, l, True)):
            if isinstance(x, FloatV) and isinstance(x.term, tuple) and x.term[0] == "ratio":
                c = lit(toint(y)) if not isinstance(y, FloatV) else None
                if c != 0:
                    raise Unsupported("comparison of a quotient with a value other than 0")
                a, b = x.term[1], x.term[2]
                sgn = z3.If(b > 0, a, -a)          # sign of a/b for b != 0
                o = type(op)
                if flip:
                    o = {ast.Lt: ast.Gt, ast.Gt: ast.Lt, ast.LtE: ast.GtE, ast.GtE: ast.LtE}.get(o, o)
                return {ast.Eq: sgn == 0, ast.NotEq: sgn != 0, ast.Lt: sgn < 0, ast.LtE: sgn <= 0, ast.Gt: sgn > 0, ast.GtE: sgn >= 0}[o]

        def real(v):
            if isinstance(v, FloatV):
                return v.term
            return z3.ToReal(toint(v))
        a, b = real(l), real(r)
        return {ast.Eq: a == b, ast.NotEq: a != b, ast.Lt: a < b, ast.LtE: a <= b, ast.Gt: a > b, ast.GtE: a >= b}[type(op)]

    def contains(self, container, item, st, line):
        if isinstance(container, MemList):
            return container.chi[toint(item)]
        if isinstance(container, DictV):
            return container.has[toint(item)]
        if isinstance(container, Seq) and container.kind == "str":
            if not (isinstance(item, Seq) and item.kind == "str"):
                raise Unsupported("non-string in string")
            k = lit(item.n)
            if k == 1:
                c = item.at(0)
                ctxt = getattr(container, "const", None)
                if ctxt is not None:
                    return z3.Or(*[c == ord(ch) for ch in ctxt]) if ctxt else z3.BoolVal(False)
                j = fresh("p")
                return z3.Exists([j], z3.And(0 <= j, j < container.n, container.at(j) == c))
            return self.occurs(item, container)
        if isinstance(container, Seq):
            v = item.at(0) if isinstance(item, Seq) else toint(item)
            if isinstance(item, Seq):
                self.prove(st, f"char-in-list:{self.ordinal('in')}", item.n == 1, line)
            m_ = getattr(container, "where_of", None)
            if m_ is not None and lit(container.n) is None:
                # membership in where(mask)[0] (positions where the mask holds, none missing): the mask itself decides it
                return z3.And(0 <= v, v < m_.n, m_.cond(v))
            n = lit(container.n)
            if n is not None and n <= 8:
                return z3.Or(*[container.at(j) == v for j in range(n)]) if n else z3.BoolVal(False)
            if getattr(container, "maxlen", None) is not None:
                return z3.Or(*[z3.And(j < container.n, container.at(j) == v) for j in range(container.maxlen)])
            j = fresh("p")
            return z3.Exists([j], z3.And(0 <= j, j < container.n, container.at(j) == v))
        raise Unsupported(f"membership in {container!r}")

    def occurs(self, m, s):
        """substring test m in s: the predicate occ over the two views (Python's str.__contains__)."""
        if m.delta != 0 or s.delta != 0:
            raise Unsupported("substring test over shifted views")
        return specz3.occ(m.arr, m.start, m.n, s.arr, s.start, s.n)

    def occurs_expanded(self, m, s):
        """exists p. forall j < |m|. s[p+j] == m[j]"""
        k = lit(m.n)
        p = fresh("p")
        if k is not None and k <= 12:
            body = z3.And(*[s.at(p + j) == m.at(j) for j in range(k)]) if k else z3.BoolVal(True)
        else:
            j = fresh("j")
            body = z3.ForAll([j], z3.Implies(z3.And(0 <= j, j < m.n), s.at(p + j) == m.at(j)))
        return z3.Exists([p], z3.And(0 <= p, p + m.n <= s.n, body))

    def ev_BinOp(self, e, st):
        l, r = self.ev(e.left, st), self.ev(e.right, st)
        if isinstance(l, NpInt) or isinstance(r, NpInt):
            return self.npint_binop(e, l, r, st)
        return self.binop(e.op, l, r, st, e.lineno)

    def npint_binop(self, e, l, r, st):
        """numpy int64 scalar (op) Python int: the Python int is converted to int64 first; OverflowError when it does not fit (NEP 50)."""
        for side, other in ((e.right, r), (e.left, l)):
            if isinstance(e.op, ast.Div):
                break                   # true division converts through float: no OverflowError (selftest/library_conformance.py)
            if isinstance(other, NpInt) or not (z3.is_expr(other) or isinstance(other, int)):
                continue
            o = toint(other)
            lo_ = lit(o)
            is_len = isinstance(side, ast.Call) and isinstance(side.func, ast.Name) and side.func.id == "len"      # len() <= sys.maxsize < 2**63
            if is_len or (lo_ is not None and -2 ** 63 <= lo_ < 2 ** 63):
                continue
            self.trusted_used.add("numpy int64 scalar (op) Python int raises OverflowError exactly when the int is outside [-2**63, 2**63)")
            self.may_raise(st, "OverflowError", z3.Or(o < iv(-2 ** 63), o >= iv(2 ** 63)), f"python-int-fits-int64:{self.ordinal('npint')}", e.lineno)
        both_np = isinstance(l, NpInt) and isinstance(r, NpInt)
        lv_, rv_ = (l.value if isinstance(l, NpInt) else l), (r.value if isinstance(r, NpInt) else r)
        out = self.binop(e.op, lv_, rv_, st, e.lineno)
        if z3.is_expr(out) and z3.is_int(out):
            return NpInt(out)
        return out

    def binop(self, op, l, r, st, line):
        if is_opaque(l) or is_opaque(r):
            return ("opaque", "expr")
        if isinstance(l, Obj) and isinstance(r, Obj) and l.cls == "datetime" and r.cls == "datetime" and isinstance(op, ast.Sub):
            return Obj("timedelta", {})
        if isinstance(l, (Mat, MatLazy)) and not isinstance(r, (Mat, MatLazy, Seq)) and isinstance(op, (ast.Add, ast.Sub)):
            c_ = toint(r)
            f_ = (lambda x: x + c_) if isinstance(op, ast.Add) else (lambda x: x - c_)
            return MatLazy(l.rows, l.cols, lambda r_, c2, l=l, f_=f_: f_(l.at(r_, c2)), l.dtype)
        if isinstance(l, MaybeFloat) or isinstance(r, MaybeFloat):
            whens = [x.when for x in (l, r) if isinstance(x, MaybeFloat)]
            return MaybeFloat(self.binop(op, toint(l), toint(r), st, line), z3.Or(*whens))
        if isinstance(l, Seq) and isinstance(r, Seq) and l.kind == "nd" and r.kind == "nd" and isinstance(op, ast.Sub):
            self.may_raise(st, "ValueError", l.n != r.n, f"operands-broadcast:{self.ordinal('bcast')}", line)
            return ZipSeq(l, r)
        if isinstance(l, Seq) or isinstance(r, Seq):
            return self.seq_binop(op, l, r, st, line)
        if isinstance(l, FloatV) or isinstance(r, FloatV):
            return self.float_binop(op, l, r, st, line)
        a, b = toint(l), toint(r)
        if isinstance(op, ast.Add):
            return add(a, b)
        if isinstance(op, ast.Sub):
            return sub(a, b)
        if isinstance(op, ast.Mult):
            return a * b
        if isinstance(op, (ast.FloorDiv, ast.Mod)):
            self.prove(st, f"divisor-positive:{self.ordinal('div')}", b > 0, line)
            st.assume(b > 0)
            return a / b if isinstance(op, ast.FloorDiv) else a % b
        if isinstance(op, ast.Div):
            # true division yields a float: only its comparisons with 0 are modelled (ratio sign), DESIGN section 2
            self.may_raise(st, "ZeroDivisionError", b == 0, f"division:{self.ordinal('div')}", line)
            if self.c.get("opaque_floats"):
                return self.opaque_float()
            return FloatV(("ratio", a, b))
        if isinstance(op, ast.Pow):
            lb, le = lit(a), lit(b)
            if lb is not None and le is not None and le >= 0:
                return iv(lb ** le)
            self.prove(st, f"exponent-nonnegative:{self.ordinal('pow')}", b >= 0, line)
            st.assume(b >= 0)
            return specz3.ipow(a, b)
        raise Unsupported(f"binary operator {type(op).__name__}")

    def opaque_float(self):
        return FloatV(fresh("float", z3.RealSort()))

    def float_binop(self, op, l, r, st, line):
        if self.c.get("opaque_floats"):
            # floats whose VALUE is irrelevant to the contract (progress display): every arithmetic result is some float; what is tracked is the one way float
            # arithmetic raises - division by an integer or float that is zero.  (Overflow to inf / nan is not modelled: a listed assumption of such contracts.)
            if isinstance(op, (ast.Div, ast.FloorDiv, ast.Mod)):
                if isinstance(r, FloatV):
                    self.prove(st, f"float-divisor-nonzero:{self.ordinal('fdiv')}", z3.BoolVal(False), line)      # an unknown float divisor cannot be shown non-zero
                else:
                    self.may_raise(st, "ZeroDivisionError", toint(r) == 0, f"division:{self.ordinal('div')}", line)
            elif not isinstance(op, (ast.Add, ast.Sub, ast.Mult)):
                raise Unsupported("float operator")
            return self.opaque_float()
        if isinstance(op, ast.Div) and isinstance(l, FloatV) and isinstance(r, FloatV) and getattr(l, "tag", (None,))[0] == "log" \
                and getattr(r, "tag", (None,))[0] == "log":
            from pyvc import library
            self.may_raise(st, "ZeroDivisionError", r.tag[1] == 1, f"division:{self.ordinal('div')}", line)     # log(1) == 0.0 (numpy: a warning and inf, not an exception - stricter here)
            out = FloatV(library.FDIV(l.term, r.term))
            out.tag = ("logratio", l.tag[1], r.tag[1])
            return out
        # only  float * int  (gc_range[i] * observed_length)  and  (1 - float)  are modelled, as opaque reals
        if isinstance(op, ast.Mult):
            f, n = (l, r) if isinstance(l, FloatV) else (r, l)
            return FloatV(z3.Function("fmulr", z3.RealSort(), I, z3.RealSort())(f.term, toint(n)))
        if isinstance(op, ast.Sub) and not isinstance(l, FloatV):
            return FloatV(z3.Function("fsubr", I, z3.RealSort(), z3.RealSort())(toint(l), r.term))
        raise Unsupported("float arithmetic")

    def seq_binop(self, op, l, r, st, line):
        if isinstance(op, ast.Add) and isinstance(l, Seq) and isinstance(r, Seq):
            return self.concat(l, r)
        if isinstance(op, ast.Mult):
            s, n = (l, r) if isinstance(l, Seq) else (r, l)
            n = toint(n)
            k = lit(s.n)
            if k == 1:
                cnt = z3.simplify(z3.If(n > 0, n, 0))
                return Seq(s.kind, s.elem, z3.K(I, s.at(0)), cnt)          # one value repeated: a constant array (no fresh symbol)
            if k == 0:
                return s
            raise Unsupported("repetition of a sequence longer than 1")
        raise Unsupported(f"sequence operator {type(op).__name__}")

    def concat(self, l, r):
        if l.kind != r.kind and not {l.kind, r.kind} <= {"list"}:
            raise Unsupported("concatenation of different kinds")
        ln, rn = lit(l.n), lit(r.n)
        if ln == 0:
            return r
        if rn == 0:
            return l
        if rn is not None and rn <= 4:           # append constant-length tail: stores on the left array
            out = l
            arr = l.arr
            for j in range(rn):
                raw = r.at(j) if l.delta == 0 else sub(r.at(j), l.delta)
                arr = z3.Store(arr, add(add(l.start, l.n), j), raw)
            return Seq(l.kind, l.elem, arr, add(l.n, rn), l.start, l.delta, l.dtype)
        if ln is not None and ln <= 4:           # prepend constant-length head: stores on the right array, start moves left
            arr = r.arr
            for j in range(ln):
                raw = l.at(j) if r.delta == 0 else sub(l.at(j), r.delta)
                arr = z3.Store(arr, add(sub(r.start, ln), j), raw)
            return Seq(r.kind, r.elem, arr, add(r.n, ln), sub(r.start, ln), r.delta, r.dtype)
        out = fresh_seq("cat", l.kind, l.elem, n=add(l.n, r.n))
        i = fresh("q")
        self_ax = z3.ForAll([i], z3.Implies(z3.And(0 <= i, i < l.n), out.arr[i] == l.at(i)), patterns=[out.arr[i]])
        i2 = fresh("q")
        ax2 = z3.ForAll([i2], z3.Implies(z3.And(l.n <= i2, i2 < l.n + r.n), out.arr[i2] == r.at(i2 - l.n)), patterns=[out.arr[i2]])
        self._defer = getattr(self, "_defer", [])
        self._defer += [self_ax, ax2]
        return out

    def use_str_axioms(self):
        if not getattr(self, "_str_on", False):
            self._str_on = True
            self.axioms += specz3.str_axioms()

    def flush_defer(self, st):
        for a in getattr(self, "_defer", []):
            st.assume(a)
        self._defer = []

    def ev_IfExp(self, e, st):
        c = tobool(self.ev(e.test, st))
        c_s = z3.simplify(c)
        if z3.is_true(c_s):
            return self.ev(e.body, st)
        if z3.is_false(c_s):
            return self.ev(e.orelse, st)
        n0 = len(st.pc)
        st.pc.append(c)
        a = self.ev(e.body, st)
        new_a = st.pc[n0 + 1:]
        del st.pc[n0:]
        st.pc.append(z3.Not(c))
        b = self.ev(e.orelse, st)
        new_b = st.pc[n0 + 1:]
        del st.pc[n0:]
        for p in new_a:
            st.pc.append(z3.Implies(c, p))
        for p in new_b:
            st.pc.append(z3.Implies(z3.Not(c), p))
        if z3.is_expr(a) and z3.is_expr(b):
            return z3.If(c, a, b)
        raise Unsupported("conditional expression over sequences (only as the value of return/assignment)")

    def ev_Subscript(self, e, st):
        base = self.ev(e.value, st)
        return self.subscript(base, e.slice, st, e.lineno, base_expr=e.value)

    def implied(self, st, goal, ms=1500):
        sv = make_solver(ms)
        sv.add(*self._query(st, [z3.Not(goal)]))
        return sv.check() == z3.unsat

    def norm_index(self, base_n, idx, st=None):
        """Python index normalisation; kept free of ite() whenever the index is known to be non-negative (E-matching)."""
        li = lit(idx)
        if li is not None:
            return iv(li) if li >= 0 else add(base_n, li)
        if self.quiet or (st is not None and self.implied(st, idx >= 0)):
            return idx
        return z3.If(idx < 0, idx + base_n, idx)

    def subscript(self, base, sl, st, line, base_expr=None):
        if is_opaque(base):
            return ("opaque", base[1] + "[]")          # an element of an opaque collection (exceptions of the subscript itself are not covered)
        if isinstance(base, CList):
            if isinstance(sl, ast.Slice):
                raise Unsupported("slice of a length-only list")
            kv = toint(self.ev(sl, st))
            self.may_raise(st, "IndexError", z3.Or(kv < -base.n, kv >= base.n), f"index:{self.ordinal('idx')}", line)
            return ("opaque", "list-element")
        if isinstance(base, Tup):
            kv = toint(self.ev(sl, st))
            k = lit(kv)
            if k is None:
                if base.items and all(isinstance(x, Seq) and x.kind == "nd" for x in base.items):
                    # a list of arrays indexed at a symbolic position: SOME array of the list (content not tracked); the position must be in range
                    self.may_raise(st, "IndexError", z3.Or(kv < -len(base.items), kv >= len(base.items)), f"index:{self.ordinal('idx')}", line)
                    return ("opaque", "list-element")
                raise Unsupported("symbolic index into a tuple")
            return base.items[k]
        if isinstance(base, Mat):
            if isinstance(sl, ast.Tuple):
                r_ = toint(self.ev(sl.elts[0], st))
                c_ = self.ev(sl.elts[1], st)
                self.index_ok(st, r_, base.rows, line)
                if isinstance(c_, Seq):                          # a[i, list of columns]: a copy of those entries of row i
                    return self.fancy(st, base.row(r_), c_, line)
                c_ = toint(c_)
                self.index_ok(st, c_, base.cols, line)
                return base.at(r_, c_)
            r_ = toint(self.ev(sl, st))
            self.index_ok(st, r_, base.rows, line)
            return base.row(r_)
        if isinstance(base, DictV):
            k_ = toint(self.ev(sl, st))
            self.may_raise(st, "KeyError", z3.Not(base.has[k_]), f"key:{self.ordinal('key')}", line)
            return base.value(k_)
        if isinstance(base, PairSeq):
            if isinstance(sl, ast.Slice):
                if sl.lower is None and sl.upper is None and sl.step is not None and lit(toint(self.ev(sl.step, st))) == -1:
                    return PairSeq(self.reverse(base.a, st), self.reverse(base.b, st))
                raise Unsupported("slice of a list of pairs")
            j = toint(self.ev(sl, st))
            self.may_raise(st, "IndexError", z3.Or(j < 0, j >= base.n), f"index:{self.ordinal('idx')}", line)
            return base.at(j)
        if z3.is_expr(base) and z3.is_array(base):        # raw array value (lemma language)
            return base[toint(self.ev(sl, st))]
        if not isinstance(base, Seq):
            raise Unsupported(f"subscript of {base!r}")
        if isinstance(sl, ast.Slice):
            if sl.step is not None:
                stp = lit(toint(self.ev(sl.step, st)))
                if stp == -1 and sl.lower is None and sl.upper is None:
                    return self.reverse(base, st)
                raise Unsupported("slice step")
            lo = iv(0) if sl.lower is None else self.clip(base.n, toint(self.ev(sl.lower, st)))
            hi = base.n if sl.upper is None else self.clip(base.n, toint(self.ev(sl.upper, st)))
            n = z3.simplify(z3.If(hi - lo > 0, hi - lo, 0))
            return base.view(lo, n)
        idxv = self.ev(sl, st)
        if isinstance(idxv, MaybeFloat):
            self.may_raise(st, "TypeError", idxv.when, f"index-is-an-integer:{self.ordinal('idxt')}", line)
            idxv = idxv.value
        if isinstance(idxv, Seq) and base.kind == "nd":            # fancy indexing a[list of ints]: a copy
            return self.fancy(st, base, idxv, line)
        if isinstance(idxv, MaskV) and base.kind == "nd":
            from pyvc import library
            return library.mask_select(self, st, base, idxv, line)
        idx = toint(idxv)
        j = self.norm_index(base.n, idx, st)
        self.may_raise(st, "IndexError", z3.Or(j < 0, j >= base.n), f"index:{self.ordinal('idx')}", line)
        if base.kind == "str":
            return base.view(j, iv(1))
        if base.elem == "char":
            return Seq("str", "char", base.arr, iv(1), add(base.start, j), base.delta)
        return base.at(j)

    def fancy(self, st, base, idxv, line):
        from pyvc.library import small_len
        k = small_len(idxv)
        if k is None or k > 8:
            raise Unsupported("fancy indexing with a symbolic-length index list")
        vals = []
        for q in range(k):
            jq = idxv.at(q)
            inr = (q < idxv.n) if lit(idxv.n) is None else z3.BoolVal(True)
            self.may_raise(st, "IndexError", z3.And(inr, z3.Or(jq < 0, jq >= base.n)), f"index:{self.ordinal('idx')}", line)
            vals.append(base.at(jq))
        out = const_list(vals)
        out.kind, out.dtype, out.elem, out.n = "nd", base.dtype, base.elem, idxv.n
        if lit(idxv.n) is None:
            out.maxlen = k
        return out

    def index_ok(self, st, j, n, line):
        """numpy index into an axis of length n; negative (wrap-around) indices are not modelled: they are an obligation."""
        self.may_raise(st, "IndexError", z3.Or(j < 0, j >= n), f"index:{self.ordinal('idx')}", line)

    def clip(self, n, x):
        lx = lit(x)
        if lx is not None and lx >= 0:
            return z3.If(x > n, n, x) if lit(n) is None or lx > lit(n) else x
        x = z3.If(x < 0, x + n, x)
        return z3.If(x < 0, 0, z3.If(x > n, n, x))

    def reverse(self, s, st):
        if s.kind == "str" and s.delta == 0:
            self.use_str_axioms()
            return Seq("str", "char", specz3.rev(s.arr, s.start, s.n), s.n)
        out = fresh_seq("rev", s.kind, s.elem, n=s.n, dtype=s.dtype)
        i = fresh("q")
        st.assume(z3.ForAll([i], z3.Implies(z3.And(0 <= i, i < s.n), out.arr[i] == s.at(s.n - 1 - i)), patterns=[out.arr[i]]))
        return out

    def ev_ListComp(self, e, st):
        if len(e.generators) != 1 or e.generators[0].ifs:
            raise Unsupported("list comprehension with several generators / conditions")
        g = e.generators[0]
        # [c for _ in range(n)]
        if isinstance(g.iter, ast.Call) and isinstance(g.iter.func, ast.Name) and g.iter.func.id == "range" and len(g.iter.args) == 1 \
                and not any(isinstance(x, ast.Name) and isinstance(g.target, ast.Name) and x.id == g.target.id for x in ast.walk(e.elt)):
            n = toint(self.ev(g.iter.args[0], st))
            if isinstance(e.elt, ast.Call) and isinstance(e.elt.func, ast.Name) and e.elt.func.id == "set" and not e.elt.args:
                if lit(n) is None or lit(n) > 8:
                    raise Unsupported("a symbolic number of sets")
                return Tup([self.ev(e.elt, st) for _ in range(max(lit(n), 0))])
            v = toint(self.ev(e.elt, st))
            cntv = z3.simplify(z3.If(n > 0, n, 0))
            out = fresh_seq("fill", "list", "int", n=cntv)
            st.assume(out.forall(lambda x: x == v))
            return out
        src = self.ev(g.iter, st)
        if isinstance(src, Seq) and isinstance(g.target, ast.Name):
            t = g.target.id
            # [int(item) for item in <str>]  ->  same array, shifted view
            if isinstance(e.elt, ast.Call) and isinstance(e.elt.func, ast.Name) and e.elt.func.id == "int" \
                    and len(e.elt.args) == 1 and isinstance(e.elt.args[0], ast.Name) and e.elt.args[0].id == t and src.elem == "char":
                self.may_raise(st, "ValueError", z3.Not(specz3.seq_digits(src)), f"int-of-each-char:{self.ordinal('intc')}", e.lineno)
                return src.retag("list", "int", -48)
            # [nucleotides.index(x) for x in <str>]  ->  the codes of the string
            if isinstance(e.elt, ast.Call) and isinstance(e.elt.func, ast.Attribute) and e.elt.func.attr == "index" and len(e.elt.args) == 1 \
                    and isinstance(e.elt.args[0], ast.Name) and e.elt.args[0].id == t and src.elem == "char":
                table = self.ev(e.elt.func.value, st)
                txt = getattr(table, "const", None)
                if txt is not None:
                    from pyvc import calls
                    return calls.map_index(self, st, txt, src, e.lineno)
            # [const_str[x] for x in <int seq>]  e.g. [nucleotides[used_index] for used_index in used_indices]
            if isinstance(e.elt, ast.Subscript) and isinstance(e.elt.slice, ast.Name) and e.elt.slice.id == t:
                table = self.ev(e.elt.value, st)
                txt = getattr(table, "const", None)
                from pyvc.library import small_len
                n = small_len(src)
                if txt is not None and n is not None and n <= 4:
                    vals = []
                    for j in range(n):
                        x = src.at(j)
                        inr = (j < src.n) if lit(src.n) is None else z3.BoolVal(True)
                        self.may_raise(st, "IndexError", z3.And(inr, z3.Or(x < -len(txt), x >= len(txt))), f"index:{self.ordinal('idx')}", e.lineno)
                        self.prove(st, f"index-nonnegative:{self.ordinal('idxnn')}", z3.Implies(inr, x >= 0), e.lineno)
                        vals.append(self.table_lookup(txt, x))
                    out = const_list(vals)
                    out.elem = "char"
                    out.n = src.n
                    out.maxlen = n
                    return out
        if isinstance(src, Seq) and isinstance(g.target, ast.Name) and lit(src.n) is not None and lit(src.n) <= 8 and src.elem == "int":
            # [expr(x) for x in <list of a literal number of ints>]: element by element (the comprehension variable is local to it)
            t = g.target.id
            saved = st.env.get(t)
            vals = []
            for j in range(lit(src.n)):
                st.env[t] = src.at(j)
                vals.append(self.ev(e.elt, st))
            if saved is None:
                st.env.pop(t, None)
            else:
                st.env[t] = saved
            if all(z3.is_expr(v) and z3.is_int(v) for v in vals):
                return const_list(vals)
        raise Unsupported(f"list comprehension shape at line {e.lineno}")

    def table_lookup(self, txt, x):
        v = iv(ord(txt[-1]))
        for j in range(len(txt) - 2, -1, -1):
            v = z3.If(x == j, iv(ord(txt[j])), v)
        return v

    def ev_Dict(self, e, st):
        if e.keys:
            raise Unsupported("non-empty dict literal")
        return DictV(z3.K(I, z3.BoolVal(False)), z3.K(I, z3.K(I, iv(0))), z3.K(I, iv(0)), const_list([]))

    def ev_Lambda(self, e, st):
        return ("lambda", e, st)

    def ev_Attribute(self, e, st):
        base = self.ev(e.value, st)
        if isinstance(base, Obj):
            if e.attr in base.fields:
                return base.fields[e.attr]
            raise Unsupported(f"attribute {e.attr}")
        if e.attr == "shape" and isinstance(base, Mat):
            return Tup([base.rows, base.cols])
        if e.attr == "shape" and isinstance(base, Seq) and base.kind == "nd":
            return Tup([base.n])
        raise Unsupported(f"attribute access .{e.attr}")

    # ------------------------------------------------------------------ calls
    def ev_Call(self, e, st):
        from pyvc import calls
        return calls.call(self, e, st)

    # ------------------------------------------------------------------ statements
    def exec_block(self, stmts, st):
        """returns list of Outcome; 'normal' outcomes have run all statements."""
        live = [st]
        done = []
        for s in stmts:
            nxt = []
            for x in live:
                for o in self.exec_stmt(s, x):
                    if o.kind == "normal":
                        nxt.append(o.st)
                    else:
                        done.append(o)
            live = nxt
            if not live:
                break
        return [Outcome("normal", x) for x in live] + done

    def drain(self):
        p, self.pending = self.pending, []
        return p

    def is_opaque_stmt(self, s):
        """a statement that only updates a variable the contract declares opaque (a data structure outside the modelled subset, e.g. a list of
        strings): it is SKIPPED - sound for obligations that do not mention the variable; exceptions the statement itself could raise are not
        covered (the contract's note says so and the bounded tier covers them)."""
        opaque = self.c.get("opaque", ())
        if not opaque:
            return False

        def base(t):
            while isinstance(t, (ast.Subscript, ast.Attribute)):
                t = t.value
            return t.id if isinstance(t, ast.Name) else None
        if isinstance(s, ast.Assign) and all(base(t) in opaque for t in s.targets):
            return True
        if isinstance(s, ast.AugAssign) and base(s.target) in opaque:
            return True
        if isinstance(s, ast.Expr) and isinstance(s.value, ast.Call) and isinstance(s.value.func, ast.Attribute) and base(s.value.func.value) in opaque:
            return True
        return False

    PURE_LIBRARY = {"array", "list", "Counter", "argsort", "sorted", "len", "max", "min", "sum", "tuple", "set", "str", "int"}

    def exec_stmt(self, s, st):
        if self.is_opaque_stmt(s):
            self.skipped_opaque = getattr(self, "skipped_opaque", 0) + 1
            self.trusted_used.add(f"{self.qualname}: statements that only update the opaque bookkeeping variables {sorted(self.c.get('opaque', ()))} are skipped "
                                  "(exceptions they could raise are not covered); a test on them is treated as non-deterministic")
            return [Outcome("normal", st)]
        tail = self.c.get("opaque_tail", ())
        if tail and isinstance(s, ast.AugAssign) and isinstance(s.target, ast.Name) and s.target.id in tail:
            # `name += <expression>` on a display-only variable: as below, the variable becomes opaque when the statement is outside the modelled subset.
            # Here the expression may read other variables (it only reads them); calls in it must be pure library calls.
            calls_ = {x.func.id for x in ast.walk(s.value) if isinstance(x, ast.Call) and isinstance(x.func, ast.Name)}
            methods_ = {x.func.attr for x in ast.walk(s.value) if isinstance(x, ast.Call) and isinstance(x.func, ast.Attribute)}
            if calls_ <= self.PURE_LIBRARY and methods_ <= {"replace", "upper", "lower", "format", "join"}:
                if is_opaque(st.env.get(s.target.id)):
                    self.skipped_opaque = getattr(self, "skipped_opaque", 0) + 1
                    return [Outcome("normal", st)]
                t = st.clone()
                keep = list(self.pending)
                n_res = len(self.results)
                try:
                    outs = self.st_AugAssign(s, t)
                    self.flush_defer(t)
                    return outs + self.drain()
                except Unsupported:
                    self.pending = keep
                    del self.results[n_res:]
                    self.trusted_used.add(f"statement at line {s.lineno} of {self.qualname} (`{s.target.id} += ...`, display text outside the modelled subset) is skipped: "
                                          "exceptions it could raise are not covered")
                    st.env[s.target.id] = ("opaque", s.target.id)
                    self.skipped_opaque = getattr(self, "skipped_opaque", 0) + 1
                    return [Outcome("normal", st)]
        if tail and isinstance(s, ast.Assign) and len(s.targets) == 1 and isinstance(s.targets[0], ast.Name) and s.targets[0].id in tail:
            # a statement `name = <expression over the listed names and pure library calls only>` outside the modelled subset: `name` becomes
            # opaque instead of the unit being undecided.  Sound for obligations that do not mention the name: such a statement reads and writes
            # nothing else (checked syntactically here); exceptions it could raise are NOT covered (the contract's note says so).
            names = {x.id for x in ast.walk(s.value) if isinstance(x, ast.Name)}
            if names <= set(tail) | self.PURE_LIBRARY:
                if any(isinstance(st.env.get(n_), tuple) and st.env.get(n_)[:1] == ("opaque",) for n_ in names & set(tail)):
                    st.env[s.targets[0].id] = ("opaque", s.targets[0].id)
                    self.skipped_opaque = getattr(self, "skipped_opaque", 0) + 1
                    return [Outcome("normal", st)]
                t = st.clone()
                keep = list(self.pending)
                try:
                    outs = self.st_Assign(s, t)
                    self.flush_defer(t)
                    return outs + self.drain()
                except Unsupported:
                    self.pending = keep
                    self.trusted_used.add(f"statement at line {s.lineno} of {self.qualname} (`{s.targets[0].id} = ...`, outside the modelled subset) is skipped: "
                                          "it reads and writes only the listed opaque names; exceptions it could raise are not covered")
                    st.env[s.targets[0].id] = ("opaque", s.targets[0].id)
                    self.skipped_opaque = getattr(self, "skipped_opaque", 0) + 1
                    return [Outcome("normal", st)]
        m = getattr(self, "st_" + type(s).__name__, None)
        if m is None:
            raise Unsupported(f"statement {type(s).__name__} at line {s.lineno}")
        outs = m(s, st)
        self.flush_defer(st)
        return outs + self.drain()

    def st_Pass(self, s, st):
        return [Outcome("normal", st)]

    def st_Expr(self, s, st):
        if isinstance(s.value, ast.Constant):
            return [Outcome("normal", st)]          # docstring: the only thing the front end drops
        if isinstance(s.value, ast.Call):
            from pyvc import calls
            calls.call_stmt(self, s.value, st)
            return [Outcome("normal", st)]
        raise Unsupported("expression statement")

    def st_Assign(self, s, st):
        if len(s.targets) != 1:
            raise Unsupported("chained assignment")
        if isinstance(s.value, ast.IfExp):
            return self.st_If(ast.If(test=s.value.test, body=[ast.Assign(targets=s.targets, value=s.value.body, lineno=s.lineno)],
                                     orelse=[ast.Assign(targets=s.targets, value=s.value.orelse, lineno=s.lineno)], lineno=s.lineno), st)
        v = self.ev(s.value, st)
        self.assign(s.targets[0], v, st, s)
        names = [x.id for x in ast.walk(s.targets[0]) if isinstance(x, ast.Name)]
        outs = [st]
        pend = self.drain()                   # exceptional exits of the assignment itself (not of the ghost code below)
        self.flush_defer(st)
        for nme in names:                     # ghost anchor "after_assign:<name>"
            if f"after_assign:{nme}" in self.c.get("ghost", {}):
                outs = [g for x in outs for g in self.ghost(f"after_assign:{nme}", x)]
        return [Outcome("normal", x) for x in outs] + pend

    def assign(self, tgt, v, st, s):
        if isinstance(tgt, ast.Name) and tgt.id in self.c.get("opaque", ()):
            st.env[tgt.id] = ("opaque", tgt.id)
            return
        if isinstance(tgt, ast.Name):
            st.aliased.discard(tgt.id)          # rebinding a name ends its membership in an alias pair
            if isinstance(v, Seq) and v.kind in ("list", "nd") and isinstance(getattr(s, "value", None), ast.Name) \
                    and tgt.id not in self.ghost_names:      # a ghost binding is a value snapshot, not an alias
                st.aliased.add(tgt.id)
                st.aliased.add(s.value.id)
            hint = self.c.get("types", {}).get(tgt.id)
            if hint == "str" and is_opaque(v):
                v = fresh_seq(tgt.id, "str", "char")            # a string built from opaque pieces: any string
                st.assume(v.n >= 0)
            from pyvc.calls import PySet, Coll
            if isinstance(v, PySet) and not v.items and tgt.id in self.c.get("collections", {}):
                v = Coll(tgt.id)
            if isinstance(v, Seq) and v.kind == "list" and lit(v.n) == 0 and tgt.id in self.c.get("collections", {}):
                v = Coll(tgt.id, "plainlist")          # the collection is built as a LIST: duplicates are possible
            if hint == "list_char" and isinstance(v, Seq) and v.kind == "list" and lit(v.n) == 0:
                v = Seq("list", "char", v.arr, v.n, v.start, v.delta)      # an empty list that will hold single characters
            if hint == "list_obj" and isinstance(v, Seq) and v.kind == "list" and lit(v.n) == 0:
                v = Tup([])                                                  # an empty list that will hold strings / arrays
            if hint == "list_members" and isinstance(v, Seq) and v.kind == "list" and lit(v.n) == 0:
                v = MemList(z3.K(I, z3.BoolVal(False)))                      # an empty list used as a set: append / membership only
                self.trusted_used.add(f"{self.qualname}: the list `{tgt.id}` is abstracted to the SET of its elements (contract type list_members): exact as long as "
                                      "the function only appends to it and tests membership; any other operation on it leaves the unit unbound")
            if hint == "list_counted" and isinstance(v, (Tup, Seq)):
                v = CList(iv(len(v.items)) if isinstance(v, Tup) else v.n)    # a list of strings / arrays: only its length is tracked
                self.trusted_used.add(f"{self.qualname}: the list `{tgt.id}` is a length-only list (contract type list_counted): its elements are not tracked, "
                                      "values read from it are arbitrary; subscripts and appends are modelled with their exceptions")
            if hint == "list_pair" and isinstance(v, Seq) and v.kind == "list" and lit(v.n) == 0:
                v = PairSeq(const_list([]), const_list([]))                  # an empty list that will hold 2-tuples of ints
            st.env[tgt.id] = v
            return
        if isinstance(tgt, (ast.Tuple, ast.List)):
            if not isinstance(v, Tup) or len(v.items) != len(tgt.elts):
                raise Unsupported("tuple unpacking of a non-tuple")
            for t, x in zip(tgt.elts, v.items):
                self.assign(t, x, st, None)
            return
        if isinstance(tgt, ast.Subscript):
            self.store(tgt, v, st, s)
            return
        if isinstance(tgt, ast.Attribute) and isinstance(tgt.value, ast.Name) and tgt.value.id == "self" and isinstance(st.env.get("self"), Obj):
            obj = st.env["self"]
            st.env["self"] = Obj(obj.cls, {**obj.fields, tgt.attr: v})      # a constructor initialising its own receiver
            return
        raise Unsupported(f"assignment target {type(tgt).__name__}")

    def store(self, tgt, v, st, s):
        line = tgt.lineno
        # name[i] = v
        if isinstance(tgt.value, ast.Name):
            name = tgt.value.id
            base = st.env.get(name)
            if isinstance(base, DictV):
                self.frame_store(st, name, line)
                k_ = toint(self.ev(tgt.slice, st))
                if not isinstance(v, Seq) or v.delta != 0 or lit(v.start) != 0:
                    raise Unsupported("dict value that is not a plain list")
                from pyvc.calls import append as seq_append
                new_order = Seq(base.order.kind, base.order.elem, z3.If(base.has[k_], base.order.arr, seq_append(base.order, k_).arr),
                                z3.If(base.has[k_], base.order.n, base.order.n + 1), base.order.start, base.order.delta)
                st.env[name] = DictV(z3.Store(base.has, k_, z3.BoolVal(True)), z3.Store(base.varr, k_, v.arr), z3.Store(base.vlen, k_, v.n), new_order)
                return
            if isinstance(base, CList):                     # a length-only list: the position must exist, the length does not change
                kv = toint(self.ev(tgt.slice, st))
                self.may_raise(st, "IndexError", z3.Or(kv < -base.n, kv >= base.n), f"index:{self.ordinal('idx')}", line)
                self.frame_store(st, name, line)
                return
            if isinstance(base, Tup):                       # a Python list of objects (strings, arrays): element replaced at a literal position
                k_ = lit(toint(self.ev(tgt.slice, st)))
                if k_ is None or not (-len(base.items) <= k_ < len(base.items)):
                    raise Unsupported("store into a list of objects at a symbolic / out-of-range position")
                self.frame_store(st, name, line)
                items = list(base.items)
                items[k_] = v
                st.env[name] = Tup(items)
                return
            if isinstance(base, Seq) and base.kind in ("list", "nd"):
                if name in st.aliased:
                    raise Unsupported(f"store through possibly aliased list {name}")
                self.frame_store(st, name, line)
                idx = toint(self.ev(tgt.slice, st))
                j = self.norm_index(base.n, idx, st)
                self.may_raise(st, "IndexError", z3.Or(j < 0, j >= base.n), f"index:{self.ordinal('idx')}", line)
                val = v.at(0) if isinstance(v, Seq) else toint(v)
                st.env[name] = base.store(j, val)
                return
            if isinstance(base, Mat):
                self.frame_store(st, name, line)
                if isinstance(tgt.slice, ast.Tuple) and isinstance(tgt.slice.elts[0], ast.Slice) and tgt.slice.elts[0].lower is None \
                        and tgt.slice.elts[0].upper is None and tgt.slice.elts[0].step is None:
                    c_ = toint(self.ev(tgt.slice.elts[1], st))            # a[:, c] = scalar : every row gets the value in column c
                    self.index_ok(st, c_, base.cols, line)
                    new2 = fresh(name, A2)
                    r = fresh("r")
                    st.assume(z3.ForAll([r], new2[r] == z3.Store(base.arr2[r], c_, toint(v)), patterns=[new2[r]]))
                    st.env[name] = Mat(new2, base.rows, base.cols, base.dtype)
                    return
                if isinstance(tgt.slice, ast.Tuple):
                    r_, c_ = [toint(self.ev(x, st)) for x in tgt.slice.elts]
                    self.index_ok(st, r_, base.rows, line)
                    self.index_ok(st, c_, base.cols, line)
                    st.env[name] = base.store(r_, c_, toint(v))
                    return
                r_ = toint(self.ev(tgt.slice, st))                           # a[r] = row / scalar
                self.index_ok(st, r_, base.rows, line)
                if isinstance(v, Seq):
                    self.may_raise(st, "ValueError", v.n != base.cols, f"row-length:{self.ordinal('rowlen')}", line)
                    if v.delta != 0 or lit(v.start) != 0:
                        raise Unsupported("row assignment from a shifted view")
                    st.env[name] = base.store_row(r_, v.arr)
                else:
                    st.env[name] = base.store_row(r_, z3.K(I, toint(v)))
                return
        # name[i][j] = v   (write through a row view)
        if isinstance(tgt.value, ast.Subscript) and isinstance(tgt.value.value, ast.Name):
            name = tgt.value.value.id
            base = st.env.get(name)
            if isinstance(base, Mat):
                self.frame_store(st, name, line)
                r_ = toint(self.ev(tgt.value.slice, st))
                cv_ = self.ev(tgt.slice, st)
                self.index_ok(st, r_, base.rows, line)
                if isinstance(cv_, Seq):
                    # m[r][list of at most four columns] = scalar : numpy writes THROUGH the row view m[r] (basic indexing gives a view)
                    from pyvc.library import small_len
                    nsel = small_len(cv_) if lit(cv_.n) is None else lit(cv_.n)
                    if nsel is None or nsel > 4:
                        raise Unsupported("row store at a long list of columns")
                    self.trusted_used.add("numpy: m[r][columns] = value writes through the row view into m")
                    row = base.arr2[r_]
                    for j in range(nsel):
                        inr = (j < cv_.n) if lit(cv_.n) is None else z3.BoolVal(True)
                        col = cv_.at(j)
                        self.may_raise(st, "IndexError", z3.And(inr, z3.Or(col < -base.cols, col >= base.cols)), f"index:{self.ordinal('idx')}", line)
                        self.prove(st, f"column-nonnegative:{self.ordinal('colnn')}", z3.Implies(inr, col >= 0), line)
                        row = z3.If(inr, z3.Store(row, col, toint(v)), row)
                    named = fresh(name, A2)          # the updated matrix gets a name: its defining term contains if-then-else, which triggers may not
                    st.assume(named == base.store_row(r_, row).arr2)
                    st.env[name] = Mat(named, base.rows, base.cols, base.dtype)
                    return
                c_ = toint(cv_)
                self.index_ok(st, c_, base.cols, line)
                st.env[name] = base.store(r_, c_, toint(v))
                return
        raise Unsupported(f"store target at line {line}")

    def frame_store(self, st, name, line):
        """C20 frame obligation: a store may only target an object allocated in the current call."""
        if name in self.param_objects and self.param_objects[name] is st.env.get(name) or name in getattr(st, "param_alias", set()):
            if name not in self.c.get("modifies", []):
                self.prove(st, f"frame:store-into-parameter:{name}:{self.ordinal('frame')}", z3.BoolVal(False), line)

    def st_AugAssign(self, s, st):
        if isinstance(s.target, ast.Name):
            cur = self.ev(ast.Name(id=s.target.id, ctx=ast.Load(), lineno=s.lineno), st)
            v = self.binop(s.op, cur, self.ev(s.value, st), st, s.lineno)
            if isinstance(cur, Seq) and cur.kind in ("list", "nd") and s.target.id in st.aliased:
                raise Unsupported("augmented assignment on a possibly aliased list")
            if is_opaque(v) and self.c.get("types", {}).get(s.target.id) == "str":
                v = fresh_seq(s.target.id, "str", "char")            # a string built from opaque pieces: any string
                st.assume(v.n >= 0)
            st.env[s.target.id] = v
            return [Outcome("normal", st)]
        if isinstance(s.target, ast.Subscript):
            cur = self.ev(ast.Subscript(value=s.target.value, slice=s.target.slice, ctx=ast.Load(), lineno=s.lineno), st)
            v = self.binop(s.op, cur, self.ev(s.value, st), st, s.lineno)
            self.store(s.target, v, st, s)
            return [Outcome("normal", st)]
        raise Unsupported("augmented assignment target")

    def st_Return(self, s, st):
        if s.value is not None and isinstance(s.value, ast.IfExp):
            return self.st_If(ast.If(test=s.value.test, body=[ast.Return(value=s.value.body, lineno=s.lineno)],
                                     orelse=[ast.Return(value=s.value.orelse, lineno=s.lineno)], lineno=s.lineno), st)
        v = NONE if s.value is None else self.ev(s.value, st)
        return [Outcome("return", st, value=v, line=s.lineno)]

    def st_Raise(self, s, st):
        exc = None
        if isinstance(s.exc, ast.Call) and isinstance(s.exc.func, ast.Name):
            exc = s.exc.func.id
        elif isinstance(s.exc, ast.Name):
            exc = s.exc.id
        if exc is None:
            raise Unsupported("raise of a computed exception")
        k = self.raise_ids.get(id(s), 0)        # raise statements are numbered in source order
        outs = []
        for g in self.ghost(f"before_raise{k}", st):
            outs.append(Outcome("raise", g, exc=exc, line=s.lineno))
        return outs

    def st_Assert(self, s, st):
        """only in ghost code / harnesses: a proof hint (lemma application) or a harness assertion - proved, then assumed."""
        self.quiet += 1
        try:
            g = tobool(self.ev(s.test, st.clone()))
        finally:
            self.quiet -= 1
        label = s.msg.value if isinstance(s.msg, ast.Constant) else f"{self.ordinal('assert')}"
        self.prove(st, f"assert:{label}", g, s.lineno)
        st.assume(g)
        return [Outcome("normal", st)]

    def st_Break(self, s, st):
        return [Outcome("break", st)]

    def st_Continue(self, s, st):
        return [Outcome("continue", st)]

    def st_Delete(self, s, st):
        from pyvc import calls
        return calls.delete(self, s, st)

    def st_If(self, s, st):
        opaque = self.c.get("opaque", ())
        if opaque and any(isinstance(x, ast.Name) and x.id in opaque for x in ast.walk(s.test)):
            c = fresh("opaque_condition", B)       # a test on an opaque data structure: both outcomes are possible
        else:
            c = tobool(self.ev(s.test, st))
        raised = self.drain()
        cs = z3.simplify(c)
        outs = []
        for cond, body in ((c, s.body), (z3.Not(c), s.orelse)):
            if (cond is c and z3.is_false(cs)) or (cond is not c and z3.is_true(cs)):
                continue
            t = st.clone()
            t.assume(cond)
            if not (z3.is_true(cs) or z3.is_false(cs)) and not self.feasible(t):
                continue
            outs += self.exec_block(body, t)
        return outs + raised

    # ------------------------------------------------------------------ loops
    def assigned_names(self, node, ghost_code=()):
        names = set()
        nodes = list(ast.walk(node))
        for g in ghost_code:
            nodes += list(ast.walk(g))
        for x in nodes:
            if isinstance(x, ast.Name) and isinstance(x.ctx, (ast.Store, ast.Del)):
                names.add(x.id)
            elif isinstance(x, ast.Subscript) and isinstance(x.ctx, (ast.Store, ast.Del)):
                b = x.value
                while isinstance(b, ast.Subscript):
                    b = b.value
                if isinstance(b, ast.Name):
                    names.add(b.id)
            elif isinstance(x, ast.Call) and isinstance(x.func, ast.Attribute) and isinstance(x.func.value, ast.Name) \
                    and x.func.attr in ("append", "insert", "add", "pop", "remove", "sort", "extend", "shuffle"):
                names.add(x.func.value.id)
            elif isinstance(x, ast.Call) and isinstance(x.func, ast.Attribute) and x.func.attr == "shuffle":
                for a_ in x.args:
                    if isinstance(a_, ast.Name):
                        names.add(a_.id)
            if isinstance(x, ast.Call) and isinstance(x.func, ast.Attribute) and isinstance(x.func.value, ast.Name) and x.func.value.id == "random":
                names.add("__rng__")          # the global generator's state changes
        return names

    def havoc_value(self, name, old):
        if isinstance(old, CList):
            return CList(fresh(name + "_n"))
        if isinstance(old, MemList):
            return MemList(fresh(name + "_chi", z3.ArraySort(I, B)))
        if isinstance(old, DictV):
            return DictV(fresh(name + "_has", z3.ArraySort(I, B)), fresh(name + "_varr", A2), fresh(name + "_vlen", A),
                         Seq("list", "int", fresh(name + "_order", A), fresh(name + "_order_n")))
        if isinstance(old, PairSeq):
            a = self.havoc_value(name + "_a", old.a)
            b = self.havoc_value(name + "_b", old.b)
            b.n = a.n
            return PairSeq(a, b)
        if isinstance(old, Seq):
            return Seq(old.kind, old.elem, fresh(name, A), fresh(name + "_n"), iv(0), 0, old.dtype)
        if isinstance(old, Mat):
            return Mat(fresh(name, A2), old.rows, old.cols, old.dtype)
        if isinstance(old, Tup):
            return Tup([self.havoc_value(f"{name}_{k}", x) for k, x in enumerate(old.items)])
        if z3.is_expr(old):
            return fresh(name, old.sort())
        return old

    def havoc(self, st, names):
        if "__rng__" in names and "__rng__" not in st.env:
            from pyvc import library
            library.rng_state(self, st)
        for nme in sorted(names):
            if nme in st.env:
                v = self.havoc_value(nme, st.env[nme])
                st.env[nme] = v
                if isinstance(v, (Seq, PairSeq)):
                    st.assume(v.n >= 0)

    def loop_spec(self, ordinal, node):
        spec = self.c.get("loops", {}).get(ordinal)
        if spec is not None and spec.get("binds") is not None:
            head = ast.unparse(node.test if isinstance(node, ast.While) else node.iter)
            if "".join(head.split()) != "".join(spec["binds"].split()):
                raise Unsupported(f"loop {ordinal} is now `{head}`, the sidecar invariant was written for `{spec['binds']}` (sidecar no longer binds)")
        return spec

    def ghost(self, anchor, st):
        """run sidecar ghost code bound to an anchor; ghost code may read program variables, never assigns them."""
        code = self.c.get("ghost", {}).get(anchor)
        if not code:
            return [st]
        tree = self.parse_ghost(anchor, code)
        self.in_ghost = getattr(self, "in_ghost", 0) + 1
        try:
            outs = self.exec_block(tree, st)
        finally:
            self.in_ghost -= 1
        res = []
        for o in outs:
            if o.kind != "normal":
                raise Unsupported(f"ghost code at {anchor} leaves by {o.kind}")
            res.append(o.st)
        return res

    def parse_ghost(self, anchor, code):
        if anchor in self._ghost_cache:
            return self._ghost_cache[anchor]
        tree = ast.parse(code).body
        gl = sorted([x for b in tree for x in ast.walk(b) if isinstance(x, (ast.For, ast.While))], key=lambda x: (x.lineno, x.col_offset))
        for k, x in enumerate(gl):
            self.loop_ids[id(x)] = f"{anchor}#{k + 1}"
        self._ghost_cache[anchor] = tree
        prog = {x.id for x in ast.walk(self.fn) if isinstance(x, ast.Name) and isinstance(x.ctx, ast.Store)} | {a.arg for a in self.fn.args.args}
        for b in tree:
            for x in self.assigned_names(b):
                if x in prog:
                    raise Unsupported(f"ghost code at {anchor} assigns program variable {x}")
                self.ghost_names.add(x)
        return tree

    def ghost_ast(self, anchor):
        code = self.c.get("ghost", {}).get(anchor)
        return self.parse_ghost(anchor, code) if code else []

    def iter_space(self, it, st, line):
        """(count, bind(state, i)) for a for-loop iterable evaluated at loop entry."""
        self._last_iter_maxlen = None
        def rng(args, reverse=False):
            vals = [toint(self.ev(a_, st)) for a_ in args]
            if len(vals) == 1:
                lo, hi, step = iv(0), vals[0], 1
            elif len(vals) == 2:
                lo, hi, step = vals[0], vals[1], 1
            else:
                lo, hi, step = vals[0], vals[1], lit(vals[2])
            if step == 1:
                cnt_ = z3.simplify(z3.If(hi - lo > 0, hi - lo, 0))
                return cnt_, (lambda i: add(add(lo, cnt_ - 1), -i) if False else (sub(add(lo, cnt_), add(i, 1)) if reverse else add(lo, i)))
            if step == -1 and not reverse:
                cnt_ = z3.simplify(z3.If(lo - hi > 0, lo - hi, 0))
                return cnt_, (lambda i: sub(lo, i))
            if step is not None and step > 1 and not reverse:
                cnt_ = z3.simplify(z3.If(hi - lo > 0, (hi - lo + step - 1) / step, 0))
                return cnt_, (lambda i: add(lo, i * step))
            raise Unsupported("range step")
        if isinstance(it, ast.Subscript) and isinstance(it.slice, ast.Slice) and it.slice.step is not None \
                and isinstance(it.value, ast.Call) and isinstance(it.value.func, ast.Name) and it.value.func.id == "range" \
                and it.slice.lower is None and it.slice.upper is None and lit(toint(self.ev(it.slice.step, st))) == -1:
            cnt_, f = rng(it.value.args, reverse=True)
            return cnt_, lambda t, i, tgt: self.assign(tgt, f(i), t, None)
        if isinstance(it, ast.Call) and isinstance(it.func, ast.Name) and it.func.id == "range":
            cnt_, f = rng(it.args)
            return cnt_, lambda t, i, tgt: self.assign(tgt, f(i), t, None)
        if isinstance(it, ast.Call) and isinstance(it.func, ast.Name) and it.func.id == "enumerate":
            if isinstance(it.args[0], ast.Call) and isinstance(it.args[0].func, ast.Attribute) and it.args[0].func.attr == "items":
                d_ = self.ev(it.args[0].func.value, st)
                if isinstance(d_, DictV):          # enumerate(d.items()): pairs (key, value) in insertion order
                    return d_.order.n, lambda t, i, tgt, d_=d_: self.assign(tgt, Tup([i, Tup([d_.order.at(i), d_.value(d_.order.at(i))])]), t, None)
            src = self.ev(it.args[0], st)
            if isinstance(src, Tup):
                return ("unroll", [Tup([iv(k_), x_]) for k_, x_ in enumerate(src.items)])
            if isinstance(src, PairSeq):
                return src.n, lambda t, i, tgt: self.assign(tgt, Tup([i, src.at(i)]), t, None)
            if isinstance(src, Mat):            # enumerate(matrix): (row index, row view)
                return src.rows, lambda t, i, tgt, src=src: self.assign(tgt, Tup([i, src.row(i)]), t, None)
            if not isinstance(src, (Seq,)):
                raise Unsupported("enumerate over a non-sequence")
            self._last_iter_maxlen = getattr(src, "maxlen", None) if lit(src.n) is None else None
            return src.n, lambda t, i, tgt: self.assign(tgt, Tup([i, self.element(src, i)]), t, None)
        if isinstance(it, ast.Call) and isinstance(it.func, ast.Name) and it.func.id == "combinations" and len(it.args) == 2 and not it.keywords:
            rng_ = it.args[0]
            if isinstance(rng_, ast.Call) and isinstance(rng_.func, ast.Name) and rng_.func.id == "range" and len(rng_.args) == 1 \
                    and lit(toint(self.ev(it.args[1], st))) == 2:
                n_ = lit(toint(self.ev(rng_.args[0], st)))
                if n_ is not None and 0 <= n_ <= 6:          # itertools.combinations(range(n), 2): the pairs (i, j), i < j, in lexicographic order
                    return ("unroll", [Tup([iv(a_), iv(b_)]) for a_ in range(n_) for b_ in range(a_ + 1, n_)])
            raise Unsupported("itertools.combinations of this family")
        if isinstance(it, ast.Call) and isinstance(it.func, ast.Name) and it.func.id == "product" and len(it.args) == 1 \
                and isinstance(it.args[0], ast.Starred) and not it.keywords:
            srcs = self.ev(it.args[0].value, st)
            if isinstance(srcs, Tup) and len(srcs.items) == 0:
                return ("unroll", [Tup([])])            # itertools.product() of no iterables yields exactly one empty tuple
            raise Unsupported("itertools.product of a non-empty family")
        src = self.ev(it, st)
        self._last_iter_maxlen = getattr(src, "maxlen", None) if isinstance(src, Seq) and lit(src.n) is None else None
        if isinstance(src, Seq):
            return src.n, lambda t, i, tgt: self.assign(tgt, self.element(src, i), t, None)
        if isinstance(src, Tup):
            return ("unroll", src.items)
        raise Unsupported(f"iteration over {src!r}")

    def element(self, src, i):
        if src.kind == "str" or src.elem == "char":
            return Seq("str", "char", src.arr, iv(1), add(src.start, i), src.delta)
        if src.elem == "bool":
            return src.at(i) != 0
        return src.at(i)

    def havoc_loop(self, s, st, n):
        """a for loop over an opaque collection (contract key havoc_loops): the body is executed once from a state in which everything the loop
        assigns is unconstrained (all its obligations are proved for every iteration), and execution continues after the loop from such a state
        too (which covers zero iterations).  No invariant is kept: only facts about variables the loop does not assign survive."""
        names = self.assigned_names(s)
        hints = self.c.get("types", {})

        def wipe(t):
            self.havoc(t, names)
            for nme in sorted(names):
                v = t.env.get(nme)
                if nme not in t.env or is_opaque(v):
                    h_ = hints.get(nme)
                    if h_ == "str":
                        t.env[nme] = fresh_seq(nme, "str", "char")
                        t.assume(t.env[nme].n >= 0)
                    elif h_ in ("int", "nat"):
                        t.env[nme] = fresh(nme)
                        if h_ == "nat":
                            t.assume(t.env[nme] >= 0)
                    elif h_ == "bool":
                        t.env[nme] = fresh(nme, B)
                    else:
                        t.env[nme] = ("opaque", nme)
        # the iterable, when it is inside the modelled subset: the loop variable is an ARBITRARY ELEMENT of the value it has at loop entry
        # (sound because the loop cannot modify it: it is not a variable the loop assigns)
        space = None
        if not (isinstance(s.iter, ast.Name) and s.iter.id in names):
            keep = list(self.pending)
            try:
                space = self.iter_space(s.iter, st.clone(), s.lineno)      # its raise conditions stay pending: the iterable is evaluated once, at loop entry
            except Unsupported:
                space = None
                self.pending = keep
        h = st.clone()
        wipe(h)
        is_range = isinstance(s.iter, ast.Call) and isinstance(s.iter.func, ast.Name) and s.iter.func.id == "range"
        if space is not None and not isinstance(space[0], str):
            count, bind = space
            i_ = fresh("_i")
            h.assume(z3.And(i_ >= 0, i_ < count))
            bind(h, i_, s.target)
        else:
            for x in ast.walk(s.target):
                if isinstance(x, ast.Name):
                    if is_range:
                        h.env[x.id] = fresh(x.id)
                    else:
                        h.env[x.id] = ("opaque", x.id)
        outs = []
        for o in self.exec_block(s.body, h):
            if o.kind not in ("normal", "continue", "break"):
                outs.append(o)
        outs += self.drain()
        a = st.clone()
        wipe(a)
        self.havoc_loops_run = getattr(self, "havoc_loops_run", 0) + 1
        self.trusted_used.add(f"loop {n} of {self.qualname} runs over an arbitrary (opaque) collection: its body is verified from an arbitrary state of the variables "
                              "it assigns; subscripts of opaque collections are not checked for exceptions")
        return [Outcome("normal", a)] + outs

    def st_For(self, s, st):
        n = self.loop_ids[id(s)]
        if s.orelse:
            raise Unsupported("for-else")
        if n in self.c.get("havoc_loops", ()):
            return self.havoc_loop(s, st, n)
        space = self.iter_space(s.iter, st, s.lineno)
        raised = self.drain()
        spec = self.loop_spec(n, s)
        if isinstance(space[0], str) or (spec is None and lit(space[0]) is not None and lit(space[0]) <= 8):
            return self.unroll(s, st, space, n) + raised
        bound = getattr(self, "_last_iter_maxlen", None)
        if spec is None and bound is not None and bound <= 4:
            return self.unroll_guarded(s, st, space, n, bound) + raised
        if spec is None:
            raise Unsupported(f"loop {n} (line {s.lineno}) has no invariant in the sidecar")
        count, bind = space
        return self.cut_loop(s, st, n, spec, count=count, bind=bind) + raised

    def unroll(self, s, st, space, n):
        if isinstance(space[0], str):
            items = space[1]
            binds = [lambda t, x=x: self.assign(s.target, x, t, None) for x in items]
        else:
            k = lit(space[0])
            binds = [lambda t, j=j: space[1](t, iv(j), s.target) for j in range(k)]
        g_end = self.ghost_ast(f"loop{n}_end")
        live, done = list(self.ghost(f"before_loop{n}", st)), []
        for b in binds:
            nxt = []
            for x in live:
                b(x)
                for o in self.exec_block(s.body, x):
                    if o.kind in ("normal", "continue"):
                        nxt += self.exec_ghost_ast(g_end, o.st, f"loop{n}_end")
                    elif o.kind == "break":
                        done.append(Outcome("normal", o.st))
                    else:
                        done.append(o)
            live = nxt
        out = []
        for x in live:
            out += [Outcome("normal", g) for g in self.ghost(f"after_loop{n}", x)]
        return out + done

    def unroll_guarded(self, s, st, space, n, bound):
        """a loop over a sequence of symbolic length <= bound (4): iteration j runs on the paths where j < length."""
        count, bind = space
        live, done = [st], []
        for j in range(bound):
            nxt = []
            for x in live:
                t_in = x.clone()
                t_in.assume(j < count)
                t_out = x
                t_out.assume(z3.Not(j < count))
                if self.feasible(t_out):
                    done.append(Outcome("normal", t_out))
                if self.feasible(t_in):
                    bind(t_in, iv(j), s.target)
                    for o in self.exec_block(s.body, t_in):
                        if o.kind in ("normal", "continue"):
                            nxt.append(o.st)
                        elif o.kind == "break":
                            done.append(Outcome("normal", o.st))
                        else:
                            done.append(o)
            live = nxt
        for x in live:
            x.assume(count <= bound)
            done.append(Outcome("normal", x))
        return done

    def st_While(self, s, st):
        n = self.loop_ids[id(s)]
        if self.c.get("stop_after_loop") == n:
            outs = self.cut_loop(s, st, n, self.loop_spec(n, s), cond=s.test)
            # partial contract: the obligations end with this loop (its exit states are treated as a return of None)
            return [Outcome("return", o.st, value=NONE, line=s.end_lineno) if o.kind == "normal" else o for o in outs]
        if s.orelse:
            raise Unsupported("while-else")
        spec = self.loop_spec(n, s)
        if spec is None:
            raise Unsupported(f"loop {n} (line {s.lineno}) has no invariant in the sidecar")
        return self.cut_loop(s, st, n, spec, cond=s.test)

    def check_invs(self, st, n, spec, phase, line):
        for label, txt in spec.get("invariant", {}).items():
            self.prove(st, f"loop{n}:{phase}:{label}", tobool(self.spec_eval(txt, st)), line)

    def assume_invs(self, st, spec):
        for label, txt in spec.get("invariant", {}).items():
            self.quiet += 1
            try:
                st.assume(tobool(self.spec_eval(txt, st)))
            finally:
                self.quiet -= 1

    def cut_loop(self, s, st, n, spec, count=None, bind=None, cond=None):
        line = s.lineno
        is_for = cond is None
        g_end = self.ghost_ast(f"loop{n}_end")
        g_begin = self.ghost_ast(f"loop{n}_begin")
        names = self.assigned_names(s, list(g_end) + list(g_begin)) | {"_i", f"_i{n}"}
        for g in self.ghost(f"before_loop{n}", st):
            st = g
        st.env["_i"] = st.env[f"_i{n}"] = iv(0)
        if is_for:
            st.env[f"_n{n}"] = count
        # (1) invariant holds on entry
        self.check_invs(st, n, spec, "inv-entry", line)
        # (2) arbitrary iteration
        h = st.clone()
        self.havoc(h, names - {"_i", f"_i{n}"})
        i = fresh("_i")
        h.env["_i"] = h.env[f"_i{n}"] = i
        h.assume(i >= 0)
        if is_for:
            h.assume(i < count)
        self.assume_invs(h, spec)
        shapes0 = {nm: self.tup_shape(h.env.get(nm)) for nm in names if isinstance(h.env.get(nm), Tup)}
        outs = []
        if is_for:
            bind(h, i, s.target)
        else:
            c = tobool(self.ev(cond, h))
            outs += self.drain()
            h.assume(c)
        if spec.get("variant") is None and not is_for:
            if n not in self.c.get("partial_correctness_loops", ()):
                raise Unsupported(f"while loop {n} has no variant")
            self.trusted_used.add(f"{self.qualname}: termination of loop {n} is NOT proved (contract option partial_correctness_loops): every clause of this "
                                  "contract is about calls that return")
        after = []
        body_outs = []
        if self.feasible(h):
            for hb in self.exec_ghost_ast(g_begin, h, f"loop{n}_begin"):
                var0 = None
                if spec.get("variant") is not None:
                    self.quiet += 1
                    var0 = self.spec_eval(spec["variant"], hb)
                    self.quiet -= 1
                    var0 = [toint(x) for x in (var0.items if isinstance(var0, Tup) else [var0])]
                    self.prove(hb, f"loop{n}:variant-bounded", z3.And(*[x >= 0 for x in var0]), line)
                body_outs += [(o, var0) for o in self.exec_block(s.body, hb)]
        for o, var0 in body_outs:
            if o.kind in ("normal", "continue"):
                t = o.st
                for t2 in self.exec_ghost_ast(g_end, t, f"loop{n}_end"):
                    t2.env["_i"] = t2.env[f"_i{n}"] = i + 1
                    for nm, sh in shapes0.items():          # a Python-level list of objects keeps its length around the loop (it is part of the cut state)
                        if self.tup_shape(t2.env.get(nm)) != sh:
                            self.prove(t2, f"loop{n}:shape-preserved:{nm}", z3.BoolVal(False), line)
                    self.check_invs(t2, n, spec, "inv-preserved", line)
                    if var0 is not None:
                        self.quiet += 1
                        v1 = self.spec_eval(spec["variant"], t2)
                        self.quiet -= 1
                        v1 = [toint(x) for x in (v1.items if isinstance(v1, Tup) else [v1])]
                        dec = z3.BoolVal(False)
                        for k in range(len(v1) - 1, -1, -1):
                            dec = z3.Or(v1[k] < var0[k], z3.And(v1[k] == var0[k], dec))
                        self.prove(t2, f"loop{n}:variant-decreases", dec, line)
            elif o.kind == "break":
                after.append(Outcome("normal", o.st))
            else:
                outs.append(o)
        # (3) state after the loop
        a = st.clone()
        self.havoc(a, names - {"_i", f"_i{n}"})
        if is_for:
            a.env["_i"] = a.env[f"_i{n}"] = count
        else:
            i2 = fresh("_i")
            a.env["_i"] = a.env[f"_i{n}"] = i2
            a.assume(i2 >= 0)
        self.assume_invs(a, spec)
        if not is_for:
            self.quiet += 1
            c2 = tobool(self.ev(cond, a))
            self.quiet -= 1
            self.drain()
            a.assume(z3.Not(c2))
        res = []
        for x in [a] + [o.st for o in after]:
            if self.feasible(x):
                for g in self.ghost(f"after_loop{n}", x):
                    res.append(Outcome("normal", g))
        return res + outs

    def tup_shape(self, v):
        if isinstance(v, Tup):
            return ("tup",) + tuple(self.tup_shape(x) for x in v.items)
        return type(v).__name__

    def exec_ghost_ast(self, tree, st, anchor):
        if not tree:
            return [st]
        self.in_ghost = getattr(self, "in_ghost", 0) + 1
        try:
            outs = self.exec_block(tree, st)
        finally:
            self.in_ghost -= 1
        res = []
        for o in outs:
            if o.kind != "normal":
                raise Unsupported(f"ghost code at {anchor} leaves by {o.kind}")
            res.append(o.st)
        return res

    # ------------------------------------------------------------------ contract language
    def spec_eval(self, txt, st, extra=None):
        from pyvc import speclang
        return speclang.evaluate(self, txt, st, extra or {})

    # ------------------------------------------------------------------ whole function
    def start_body(self, st):
        """PARTIAL contract `start_at`: symbolic execution begins at the first top-level statement that assigns the named variable; the locals the
        skipped prefix assigns are unconstrained values of the shapes the contract declares (so every obligation is proved for ALL values the prefix
        could have produced).  Checked here: the prefix assigns no parameter and every local it assigns is declared.  Not covered: exceptions and
        non-termination of the prefix, in-place modification of parameter objects by the prefix (frame analysis, C20)."""
        sa = self.c.get("start_at")
        body = self.fn.body
        if not sa:
            return body
        from pyvc import shapes
        idx = None
        for k_, stmt in enumerate(body):
            if isinstance(stmt, ast.Assign) and any(isinstance(x, ast.Name) and x.id == sa["assign"] for t in stmt.targets for x in ast.walk(t)):
                idx = k_
                break
        if idx is None:
            raise Unsupported(f"no top-level assignment to {sa['assign']} (sidecar no longer binds)")
        params = {a.arg for a in self.fn.args.args}
        assigned = set()
        for stmt in body[:idx]:
            assigned |= self.assigned_names(stmt)
        if assigned & params:
            raise Unsupported(f"the skipped prefix assigns parameter(s) {sorted(assigned & params)} (sidecar no longer binds)")
        for nme in sorted(assigned):
            shape = sa.get("locals", {}).get(nme)
            if shape is None:
                raise Unsupported(f"the skipped prefix assigns {nme}, which the sidecar does not declare (sidecar no longer binds)")
            st.env[nme] = ("opaque", nme) if shape == "opaque" else shapes.fresh_of(self, st, shape, nme)
        self.skipped_prefix = idx
        self.trusted_used.add(f"PARTIAL contract {self.qualname}: execution starts at the first assignment to `{sa['assign']}` (statement {idx + 1} of the body); "
                              "the locals assigned before are arbitrary values; exceptions, non-termination and in-place effects of the skipped prefix are not covered")
        return body[idx:]

    def run(self):
        from pyvc import shapes
        if self.binding_error:
            raise Unsupported(self.binding_error)
        st = State()
        self.param_objects = {}
        args = self.fn.args
        names = [a.arg for a in args.args]
        defaults = dict(zip(names[len(names) - len(args.defaults):], args.defaults))
        simple = ("int", "nat", "bool", "true", "false", "const0", "none")
        ordered = [n_ for n_ in names if self.c.get("params", {}).get(n_) in simple] + \
                  [n_ for n_ in names if self.c.get("params", {}).get(n_) not in simple]       # dimensions first: shapes may mention them
        gp = self.c.get("ghost_params", {})
        for nme, shape in gp.items():       # universally quantified spec-only inputs (scalars now, structured ones after the real scalars)
            if shape in simple:
                st.env[nme] = shapes.fresh_of(self, st, shape, nme)
                self.ghost_names.add(nme)
        for nme in ordered:
            if self.c.get("params", {}).get(nme) in simple and nme not in st.env and nme != "self":
                if nme in self.split:
                    st.env[nme] = shapes.const_value(self.split[nme])
                else:
                    st.env[nme] = shapes.fresh_of(self, st, self.c["params"][nme], nme)
                self.param_objects[nme] = st.env[nme]
        for nme, shape in gp.items():
            if shape not in simple:
                st.env[nme] = shapes.fresh_of(self, st, shape, nme)
                self.ghost_names.add(nme)
        for nme in ordered:
            if nme in st.env:          # already created (a scalar) or declared as a ghost (spec-only) input of the harness
                self.param_objects.setdefault(nme, st.env[nme])
                continue
            if nme == "self":
                st.env["self"] = shapes.make_self(self, st)
                continue
            shape = self.c.get("params", {}).get(nme)
            if nme in self.split:
                st.env[nme] = shapes.const_value(self.split[nme])
            elif shape is None:
                if nme in defaults:
                    st.env[nme] = self.ev(defaults[nme], st)
                else:
                    raise Unsupported(f"parameter {nme} has no shape in the contract")
            else:
                st.env[nme] = shapes.fresh_of(self, st, shape, nme)
            self.param_objects[nme] = st.env[nme]
        self.old = dict(st.env)
        st.env["__old__"] = self.old
        for label, txt in self.c.get("requires", {}).items():
            self.quiet += 1
            st.assume(tobool(self.spec_eval(txt, st)))
            self.quiet -= 1
        for label, txt in self.c.get("stashed_requires", {}).items():      # preconditions kept out of the queries until unstash(label)
            self.quiet += 1
            st.stash[label] = tobool(self.spec_eval(txt, st))
            self.quiet -= 1
        if not self.feasible(st):
            self.results.append(Result(f"{self.qualname}{self.tag}:requires-satisfiable", "failed", "z3", 0.0, None, "precondition is contradictory"))
            return self.results
        self.entry = st.clone()
        self.entry_pc = list(st.pc)
        outs = []
        body = self.start_body(st)
        for g in self.ghost("entry", st):
            outs += self.exec_block(body, g)
        n_ret = n_raise = 0
        for o in outs:
            if o.kind == "normal":
                o = Outcome("return", o.st, value=NONE, line=self.fn.end_lineno)
            if o.kind == "return":
                n_ret += 1
                self.check_return(o, n_ret)
            elif o.kind == "raise":
                n_raise += 1
                self.check_raise(o, n_raise)
            else:
                raise Unsupported(f"{o.kind} outside a loop")
        return self.results

    def check_return(self, o, k):
        st = o.st
        for p_, v_ in self.old.items():        # in a postcondition a parameter name means its value at entry
            if p_ in self.param_objects:
                st.env[p_] = v_
        st.env["result"] = o.value
        line = o.line
        for g in self.ghost("before_return", st):
            for label, txt in self.c.get("ensures", {}).items():
                self.prove(g, f"return{k}@{line}:ensures:{label}", tobool(self.spec_eval(txt, g)), line)
            # "raises exactly when": on a returning path the raise condition must be false
            for exc, txt in self.c.get("raises", {}).items():
                if txt is not None:
                    self.prove(g, f"return{k}@{line}:not-raises:{exc}", z3.Not(tobool(self.spec_eval(txt, g, {"__entry__": True}))), line)

    def check_raise(self, o, k):
        st = o.st
        raises = dict(self.c.get("raises", {}))
        raises.update(self.c.get("raises_only_when", {}))
        if o.exc not in raises:
            self.prove(st, f"raise{k}@{o.line}:{o.exc}:unreachable", z3.BoolVal(False), o.line)
            return
        txt = raises[o.exc]
        if txt is not None:
            self.prove(st, f"raise{k}@{o.line}:{o.exc}:only-when", tobool(self.spec_eval(txt, st, {"__entry__": True})), o.line)
        else:
            self.results.append(Result(f"{self.qualname}{self.tag}:raise{k}@{o.line}:{o.exc}:allowed", "discharged", "contract", 0.0, o.line))


def run_cvc5(smt2, limit_s=None):
    exe = "/usr/bin/cvc5"
    limit_s = CVC5_TIMEOUT_S if limit_s is None else limit_s
    if not os.path.exists(exe) or limit_s <= 0:
        return "absent", ""
    with tempfile.NamedTemporaryFile("w", suffix=".smt2", delete=False, dir=os.environ.get("PYVC_TMP", None)) as f:
        f.write("(set-logic ALL)\n" + smt2)
        path = f.name
    try:
        p = subprocess.run([exe, "--tlimit", str(limit_s * 1000), path], capture_output=True, text=True, timeout=limit_s + 5)
        out = (p.stdout + p.stderr).strip()
        first = out.split("\n")[0] if out else ""
        return (first if first in ("sat", "unsat", "unknown") else "error"), out
    except subprocess.TimeoutExpired:
        return "timeout", ""
    finally:
        os.unlink(path)
