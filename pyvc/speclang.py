"""The contract language: Python expressions (parsed by ast, evaluated by the same evaluator as the code) plus
old(), result, forall/exists(lambda j: .., lo, hi), implies(a, b) and the spec functions of contracts/specs.py."""
import ast

import z3

from pyvc import specz3
from pyvc.sym import iv, add, sub, lit, fresh, Seq, Tup, NONE, NoneV, Mat, Row, Obj, FloatV, const_str

_cache = {}


def parse(txt):
    if txt not in _cache:
        _cache[txt] = ast.parse(txt.strip(), mode="eval").body
    return _cache[txt]


def evaluate(ex, txt, st, extra):
    from pyvc.engine import tobool
    scratch = st.clone()
    scratch.env = dict(st.env)
    scratch.env.update(extra)
    ex.quiet += 1
    saved_pending = ex.pending
    ex.pending = []
    saved_defer = getattr(ex, "_defer", [])
    ex._defer = []
    try:
        return ex.ev(parse(txt), scratch)
    finally:
        ex.quiet -= 1
        ex.pending = saved_pending
        ex._defer = saved_defer


def _bool(v):
    from pyvc.engine import tobool
    return tobool(v)


def _int(v):
    from pyvc.engine import toint
    return toint(v)


def sp_forall(ex, e, st, exists=False, expand=True):
    lam = e.args[0]
    if not isinstance(lam, ast.Lambda):
        raise ValueError("forall needs a lambda")
    names = [a.arg for a in lam.args.args]
    if len(names) == 1 and len(e.args) >= 3:
        lo_l, hi_l = lit(_int(ex.ev(e.args[1], st))), lit(_int(ex.ev(e.args[2], st)))
        if expand and lo_l is not None and hi_l is not None and hi_l - lo_l <= 8:
            # a quantifier over a small literal range is a finite conjunction / disjunction: expand it (nothing for E-matching to guess)
            parts = []
            for val_ in range(lo_l, hi_l):
                t_ = st.clone()
                t_.env[names[0]] = iv(val_)
                parts.append(_bool(ex.ev(lam.body, t_)))
            if exists:
                return z3.Or(*parts) if parts else z3.BoolVal(False)
            return z3.And(*parts) if parts else z3.BoolVal(True)
    t = st.clone()
    vs = []
    for n in names:
        v = z3.Int(n + "#q")          # deterministic bound-variable names: the same contract text yields the same formula
        t.env[n] = v
        vs.append(v)
    guard = []
    if len(e.args) >= 3:
        lo, hi = _int(ex.ev(e.args[1], st)), _int(ex.ev(e.args[2], st))
        guard = [lo <= vs[0], vs[0] < hi]
    body = _bool(ex.ev(lam.body, t))
    if exists:
        return z3.Exists(vs, z3.And(*guard, body))
    pats = []
    if len(e.args) >= 4 and isinstance(e.args[3], ast.Lambda):      # forall(lambda v: .., lo, hi, lambda v: <trigger term>)
        trig = e.args[3]
        tt = st.clone()
        for n, v in zip([a.arg for a in trig.args.args], vs):
            tt.env[n] = v
        tv = ex.ev(trig.body, tt)
        tv = tv.items if isinstance(tv, Tup) else [tv]
        from pyvc.sym import has_ite
        tv = [x.at(0) if isinstance(x, Seq) else x for x in tv]
        if not any(has_ite(x) for x in tv):
            pats = [z3.MultiPattern(*tv) if len(tv) > 1 else tv[0]]
        if len(tv) == 1 and z3.is_app(tv[0]) and tv[0].decl().name() == "here":
            # a fact instantiated on demand: "for every MARKED v ..." - the marker is also a hypothesis of the body, so that such a fact can be
            # re-established from another one of the same kind (the skolem constant of the goal is then marked)
            body = z3.Implies(tv[0], body)
    full = z3.Implies(z3.And(*guard), body) if guard else body
    return z3.ForAll(vs, full, patterns=pats) if pats else z3.ForAll(vs, full)


def sp_implies(ex, e, st):
    return z3.Implies(_bool(ex.ev(e.args[0], st)), _bool(ex.ev(e.args[1], st)))


def sp_old(ex, e, st):
    t = st.clone()
    t.env = dict(ex.old)
    return ex.ev(e.args[0], t)


def _seq(v):
    if not isinstance(v, Seq):
        from pyvc.engine import Unsupported
        raise Unsupported(f"contract expression expects a sequence, the code now has {v!r} there (sidecar no longer binds)")
    return v


def sp_digits(ex, e, st):
    s = _seq(ex.ev(e.args[0], st))
    lo = _int(ex.ev(e.args[1], st)) if len(e.args) > 1 else None
    hi = _int(ex.ev(e.args[2], st)) if len(e.args) > 2 else None
    top = lit(_int(ex.ev(e.args[3], st))) if len(e.args) > 3 else 9
    return specz3.seq_digits(s, lo, hi, top)


def sp_val(ex, e, st):
    s = _seq(ex.ev(e.args[0], st))
    lo = _int(ex.ev(e.args[1], st))
    hi = _int(ex.ev(e.args[2], st))
    base = _int(ex.ev(e.args[3], st)) if len(e.args) > 3 else iv(10)
    return specz3.seq_pv(s, lo, hi, base)


def sp_dval(ex, e, st):
    s = _seq(ex.ev(e.args[0], st))
    txt = getattr(s, "const", None)
    if txt is not None and txt.isdigit():
        return iv(int(txt))
    if getattr(s, "intval", None) is not None:
        return s.intval
    return specz3.seq_pv(s, iv(0), s.n, iv(10))


def sp_val2(ex, e, st):
    s = _seq(ex.ev(e.args[0], st))
    return specz3.seq_pv(s, iv(0), s.n, iv(2))


def sp_val4(ex, e, st):
    """base-4 value of a DNA string: code(c) is not an affine map of the code point, so it goes through codes()."""
    raise ValueError("val4 on raw strings is not available; use val(codes, lo, hi, 4)")


def sp_canon(ex, e, st):
    s = _seq(ex.ev(e.args[0], st))
    return z3.And(s.n >= 1, specz3.seq_digits(s), z3.Or(s.n == 1, specz3.digit_of(s, 0) != 0))


def sp_ipow(ex, e, st):
    b, x = _int(ex.ev(e.args[0], st)), _int(ex.ev(e.args[1], st))
    lb, lx = lit(b), lit(x)
    if lb is not None and lx is not None and lx >= 0:
        return iv(lb ** lx)
    return specz3.ipow(b, x)


def sp_dig(ex, e, st):
    s = _seq(ex.ev(e.args[0], st))
    return specz3.digit_of(s, _int(ex.ev(e.args[1], st)))


def sp_same_seq(ex, e, st):
    """element-wise equality of two sequences over a range: same(a, b, lo, hi)"""
    a, b = _seq(ex.ev(e.args[0], st)), _seq(ex.ev(e.args[1], st))
    lo, hi = _int(ex.ev(e.args[2], st)), _int(ex.ev(e.args[3], st))
    j = fresh("j")
    return z3.ForAll([j], z3.Implies(z3.And(lo <= j, j < hi), a.at(j) == b.at(j)))


def sp_ite(ex, e, st):
    c = _bool(ex.ev(e.args[0], st))
    a, b = ex.ev(e.args[1], st), ex.ev(e.args[2], st)
    return z3.If(c, _int(a), _int(b))


def sp_isnone(ex, e, st):
    return z3.BoolVal(isinstance(ex.ev(e.args[0], st), NoneV))


def sp_cnt(ex, e, st):
    """cnt(s, lo, hi, 'C') : number of positions in [lo, hi) holding that character / int."""
    s = _seq(ex.ev(e.args[0], st))
    lo, hi = _int(ex.ev(e.args[1], st)), _int(ex.ev(e.args[2], st))
    x = ex.ev(e.args[3], st)
    x = x.at(0) if isinstance(x, Seq) else _int(x)
    return specz3.cnt(s.arr, iv(s.delta), add(s.start, lo), add(s.start, hi), x)


def sp_ssum(ex, e, st):
    s = _seq(ex.ev(e.args[0], st))
    lo, hi = _int(ex.ev(e.args[1], st)), _int(ex.ev(e.args[2], st))
    return specz3.ssum(s.arr, iv(s.delta), add(s.start, lo), add(s.start, hi))


def sp_seq_is(ex, e, st):
    """seq_is(a, b): a and b are the same sequence value (same array, window and offset)."""
    a, b = _seq(ex.ev(e.args[0], st)), _seq(ex.ev(e.args[1], st))
    if a.delta != b.delta:
        return z3.And(a.n == b.n, sp_same_core(a, b, iv(0), a.n))
    return z3.And(a.arr == b.arr, a.start == b.start, a.n == b.n)


def sp_same_core(a, b, lo, hi):
    j = fresh("j")
    return z3.ForAll([j], z3.Implies(z3.And(lo <= j, j < hi), a.at(j) == b.at(j)))


def sp_seq_is_cons(ex, e, st):
    """seq_is_cons(a, x, b): a == [x] + b   (as produced by b.insert(0, x))."""
    a, b = _seq(ex.ev(e.args[0], st)), _seq(ex.ev(e.args[2], st))
    x = ex.ev(e.args[1], st)
    x = x.at(0) if isinstance(x, Seq) else _int(x)
    if a.delta != b.delta:
        raise ValueError("seq_is_cons over different views")
    raw = x if b.delta == 0 else sub(x, b.delta)
    return z3.And(a.arr == z3.Store(b.arr, sub(b.start, 1), raw), a.start == sub(b.start, 1), a.n == add(b.n, 1))


def sp_upd(ex, e, st):
    """upd(s, j, v): the sequence s with element j replaced by v (a value, nothing is mutated)."""
    a = _seq(ex.ev(e.args[0], st))
    j = _int(ex.ev(e.args[1], st))
    v = ex.ev(e.args[2], st)
    v = v.at(0) if isinstance(v, Seq) else _int(v)
    return a.store(j, v)


def sp_pv(ex, e, st):
    """raw prefix value pv(a, d, lo, hi, b) over an array value (lemma language)."""
    a = ex.ev(e.args[0], st)
    d, lo, hi, b = [_int(ex.ev(x, st)) for x in e.args[1:5]]
    return specz3.pv(a, d, lo, hi, b)


def sp_store(ex, e, st):
    a = ex.ev(e.args[0], st)
    return z3.Store(a, _int(ex.ev(e.args[1], st)), _int(ex.ev(e.args[2], st)))


def sp_A(ex, e, st):
    return _seq(ex.ev(e.args[0], st)).arr


def sp_D(ex, e, st):
    s = _seq(ex.ev(e.args[0], st))
    return iv(s.delta - (48 if s.elem == "char" else 0))


def sp_P(ex, e, st):
    s = _seq(ex.ev(e.args[0], st))
    return add(s.start, _int(ex.ev(e.args[1], st)))


def _use_codes(ex):
    if not getattr(ex, "_codes_on", False):
        ex._codes_on = True
        ex.axioms += specz3.codes_axioms()


def codes_seq(ex, s):
    """the sequence of nucleotide codes of a string view (same window on codes_of(array))."""
    if s.delta != 0 or s.elem != "char":
        from pyvc.engine import Unsupported
        raise Unsupported("nucleotide codes of a shifted view")
    _use_codes(ex)
    return Seq("list", "int", specz3.codes_of(s.arr), s.n, s.start, 0)


def sp_code(ex, e, st):
    c = ex.ev(e.args[0], st)
    c = c.at(0) if isinstance(c, Seq) else _int(c)
    return specz3.code_of(c)


def sp_dnav(ex, e, st):
    """dnav(s, lo, hi): base-4 value of the nucleotides s[lo:hi] (A<C<G<T)."""
    s = codes_seq(ex, _seq(ex.ev(e.args[0], st)))
    lo = _int(ex.ev(e.args[1], st)) if len(e.args) > 1 else iv(0)
    hi = _int(ex.ev(e.args[2], st)) if len(e.args) > 2 else s.n
    return specz3.seq_pv(s, lo, hi, 4)


def sp_codes(ex, e, st):
    return codes_seq(ex, _seq(ex.ev(e.args[0], st)))


def sp_is_dna(ex, e, st):
    s = _seq(ex.ev(e.args[0], st))
    lo = _int(ex.ev(e.args[1], st)) if len(e.args) > 1 else None
    hi = _int(ex.ev(e.args[2], st)) if len(e.args) > 2 else None
    return s.forall(lambda v: z3.Or(v == 65, v == 67, v == 71, v == 84), lo, hi)


# ------------------------------------------------------------------ coding graph / digit map (C05, C18)
def _mat(v):
    if not isinstance(v, Mat):
        from pyvc.engine import Unsupported
        raise Unsupported(f"contract expression expects a 2-D array, the code now has {v!r} there (sidecar no longer binds)")
    return v


def row_live(acc, v):
    return [acc.at(v, j) >= 0 for j in range(4)]


def row_deg(acc, v):
    tot = None
    for c in row_live(acc, v):
        t = z3.If(c, iv(1), iv(0))
        tot = t if tot is None else tot + t
    return tot


def row_rank(acc, shuf, v, j):
    """rank of live column j among the live columns of row v (key: column number, or the table entry of the column)."""
    live = row_live(acc, v)
    key = (lambda c: iv(c)) if isinstance(shuf, NoneV) else (lambda c: shuf.at(v, c))
    tot = iv(0)
    for c in range(4):
        if c != j:
            tot = tot + z3.If(z3.And(live[c], key(c) < key(j)), iv(1), iv(0))
    return tot


def row_arc(acc, shuf, v, d):
    """the live column whose rank is d (A<C<G<T order, or the order of the table entries)."""
    live = row_live(acc, v)
    out = iv(3)
    for j in (2, 1, 0):
        out = z3.If(z3.And(live[j], row_rank(acc, shuf, v, j) == d), iv(j), out)
    return out


class _RowMat:
    """adapter: a raw row array (and optionally a raw table row) seen as a one-row matrix, so that the row_* helpers apply."""

    def __init__(self, row):
        self.row = row

    def at(self, v, j):
        return self.row[j]


def _rowpair(ex, e, st, n):
    row = _RowMat(ex.ev(e.args[0], st))
    srow = ex.ev(e.args[1], st)
    srow = srow if isinstance(srow, NoneV) else _RowMat(srow)
    rest = [_int(ex.ev(x, st)) for x in e.args[2:2 + n]]
    return row, srow, rest


def sp_rdeg(ex, e, st):
    return row_deg(_RowMat(ex.ev(e.args[0], st)), iv(0))


def sp_rarc(ex, e, st):
    row, srow, (d,) = _rowpair(ex, e, st, 1)
    return row_arc(row, srow, iv(0), d)


def sp_rdigit(ex, e, st):
    row, srow, (j,) = _rowpair(ex, e, st, 1)
    out = row_rank(row, srow, iv(0), 3)
    for c in (2, 1, 0):
        out = z3.If(j == c, row_rank(row, srow, iv(0), c), out)
    return out


def sp_is_perm_row(ex, e, st):
    r = ex.ev(e.args[0], st)
    ent = [r[j] for j in range(4)]
    return z3.And(*[z3.And(x >= 0, x <= 3) for x in ent], z3.Distinct(*ent))


def sp_row(ex, e, st):
    m = ex.ev(e.args[0], st)
    if isinstance(m, NoneV):
        return m
    return _mat(m).arr2[_int(ex.ev(e.args[1], st))]


def sp_deg(ex, e, st):
    return row_deg(_mat(ex.ev(e.args[0], st)), _int(ex.ev(e.args[1], st)))


def sp_arc_of_digit(ex, e, st):
    return row_arc(_mat(ex.ev(e.args[0], st)), ex.ev(e.args[1], st), _int(ex.ev(e.args[2], st)), _int(ex.ev(e.args[3], st)))


def sp_digit_of_arc(ex, e, st):
    acc, shuf, v = _mat(ex.ev(e.args[0], st)), ex.ev(e.args[1], st), _int(ex.ev(e.args[2], st))
    j = _int(ex.ev(e.args[3], st))
    out = row_rank(acc, shuf, v, 3)
    for c in (2, 1, 0):
        out = z3.If(j == c, row_rank(acc, shuf, v, c), out)
    return out


def _use_succ(ex):
    if not getattr(ex, "_succ_on", False):
        ex._succ_on = True
        ex.axioms += specz3.succ_axioms()


def sp_gc_window_ok(ex, e, st):
    """gc_window_ok(filter, s, w): window w of s (observed length) has its G+C count within the configured bounds."""
    f, s_ = ex.ev(e.args[0], st), _seq(ex.ev(e.args[1], st))
    w = _int(ex.ev(e.args[2], st))
    k = _int(f.fields["observed_length"])
    gc = f.fields["gc_range"]
    fm = z3.Function("fmulr", z3.RealSort(), z3.IntSort(), z3.RealSort())
    lo, hi = gc.items[0].term, gc.items[1].term
    return z3.And(z3.Not(z3.ToReal(_gc(s_, w, w + k)) > fm(hi, k)), z3.Not(z3.ToReal(_gc(s_, w, w + k)) < fm(lo, k)))


def sp_comp(ex, e, st):
    """comp(c): Watson-Crick complement of a nucleotide character (A<->T, C<->G)."""
    c = ex.ev(e.args[0], st)
    c = c.at(0) if isinstance(c, Seq) else _int(c)
    return z3.If(c == 65, iv(84), z3.If(c == 84, iv(65), z3.If(c == 67, iv(71), z3.If(c == 71, iv(67), c))))


def sp_chr(ex, e, st):
    c = ex.ev(e.args[0], st)
    return c.at(0) if isinstance(c, Seq) else _int(c)


def _dict(v):
    from pyvc.sym import DictV
    if not isinstance(v, DictV):
        from pyvc.engine import Unsupported
        raise Unsupported(f"contract expression expects a dict, the code now has {v!r} there (sidecar no longer binds)")
    return v


def sp_haskey(ex, e, st):
    return _dict(ex.ev(e.args[0], st)).has[_int(ex.ev(e.args[1], st))]


def sp_order(ex, e, st):
    return _dict(ex.ev(e.args[0], st)).order


def sp_sorted_positions(ex, e, st):
    """sorted_positions(idx, acc, k, B): idx lists, in strictly increasing order and without omission, the vertices v < B that have an arc."""
    idx, acc = _seq(ex.ev(e.args[0], st)), _mat(ex.ev(e.args[1], st))
    k, bnd = _int(ex.ev(e.args[2], st)), _int(ex.ev(e.args[3], st))
    a = idx.arr
    off = idx.start
    i, j, v = z3.Int("i#sp"), z3.Int("j#sp"), z3.Int("v#sp")
    el = lambda t: a[off + t] if lit(off) != 0 else a[t]
    facts = [idx.n >= 0,
             z3.ForAll([i], z3.Implies(z3.And(0 <= i, i < idx.n), z3.And(0 <= el(i), el(i) < bnd, row_deg(acc, el(i)) > 0)), patterns=[el(i)]),
             z3.ForAll([i, j], z3.Implies(z3.And(0 <= i, i < j, j < idx.n), el(i) < el(j)), patterns=[z3.MultiPattern(el(i), el(j))]),
             z3.ForAll([i, v], z3.Implies(z3.And(0 <= i, i + 1 < idx.n, el(i) < v, v < el(i + 1)), row_deg(acc, v) == 0),
                       patterns=[z3.MultiPattern(el(i), acc.arr2[v])]),
             z3.ForAll([v], z3.Implies(z3.And(0 <= v, v < bnd, z3.Or(idx.n == 0, v < el(0), v > el(idx.n - 1))), row_deg(acc, v) == 0),
                       patterns=[acc.arr2[v]])]
    return z3.And(*facts)


def sp_lm_of(ex, e, st):
    """lm_of(d, acc, k[, B]): d is the latter map of the accessor restricted to the vertices below B (default 4^k): its keys are exactly the
    vertices with an arc, each mapped to the list of its live successors in A<C<G<T order."""
    d, acc = _dict(ex.ev(e.args[0], st)), _mat(ex.ev(e.args[1], st))
    k = _int(ex.ev(e.args[2], st))
    n_ = sp_ipow_val(4, k)
    bnd = _int(ex.ev(e.args[3], st)) if len(e.args) > 3 else n_
    v = z3.Int("v#lm")
    dg = row_deg(acc, v)
    vals = z3.And(d.vlen[v] == dg, *[z3.Implies(i < dg, d.varr[v][i] == acc.arr2[v][row_arc(acc, NONE, v, iv(i))]) for i in range(4)])
    from pyvc.sym import qforall
    keys = qforall([v], z3.And(d.has[v] == z3.And(0 <= v, v < bnd, dg > 0), z3.Implies(d.has[v], vals)), [d.has[v]])
    return keys


def _lmemb(d, v, w):
    """w is one of the (at most four) entries of the list d[v]"""
    return z3.Or(*[z3.And(iv(j) < d.vlen[v], d.varr[v][iv(j)] == w) for j in range(4)])


def sp_lmemb(ex, e, st):
    """lmemb(d, v, w): w is an entry of d[v] (lists of a latter map hold at most four entries)."""
    return _lmemb(_dict(ex.ev(e.args[0], st)), _int(ex.ev(e.args[1], st)), _int(ex.ev(e.args[2], st)))


def sp_lm_small(ex, e, st):
    """lm_small(d): every list of the map has between 0 and 4 entries (a de Bruijn vertex has four shift successors)."""
    d = _dict(ex.ev(e.args[0], st))
    v = z3.Int("v#lms")
    from pyvc.sym import qforall
    return qforall([v], z3.Implies(d.has[v], z3.And(0 <= d.vlen[v], d.vlen[v] <= 4)), [d.has[v]])


def sp_lm_sub(ex, e, st):
    """lm_sub(d, d0): every key of d is a key of d0, its list has at most four entries and each of them is an entry of d0's list of that key."""
    d, d0 = _dict(ex.ev(e.args[0], st)), _dict(ex.ev(e.args[1], st))
    v = z3.Int("v#lsub")
    from pyvc.sym import qforall
    body = z3.And(d0.has[v], 0 <= d.vlen[v], d.vlen[v] <= 4, *[z3.Implies(iv(i) < d.vlen[v], _lmemb(d0, v, d.varr[v][iv(i)])) for i in range(4)])
    return qforall([v], z3.Implies(d.has[v], body), [d.has[v]])


def sp_lm_closed(ex, e, st):
    """lm_closed(d, t): every key of d lists at least t vertices and every vertex it lists is a key of d."""
    d, t = _dict(ex.ev(e.args[0], st)), _int(ex.ev(e.args[1], st))
    v = z3.Int("v#lcl")
    from pyvc.sym import qforall
    body = z3.And(d.vlen[v] >= t, *[z3.Implies(iv(i) < d.vlen[v], d.has[d.varr[v][iv(i)]]) for i in range(4)])
    return qforall([v], z3.Implies(d.has[v], body), [d.has[v]])


def _ml(v):
    from pyvc.sym import MemList
    if not isinstance(v, MemList):
        from pyvc.engine import Unsupported
        raise Unsupported(f"contract expression expects an append/membership-only list, the code now has {v!r} there (sidecar no longer binds)")
    return v.chi


def sp_aupd(ex, e, st):
    """aupd(a, j, v): the raw (ghost) array a with entry j replaced by v."""
    return z3.Store(ex.ev(e.args[0], st), _int(ex.ev(e.args[1], st)), _int(ex.ev(e.args[2], st)))


def sp_lmlen(ex, e, st):
    """lmlen(d, v): length of the list d[v] (meaningful for keys)."""
    return _dict(ex.ev(e.args[0], st)).vlen[_int(ex.ev(e.args[1], st))]


def sp_ml_sound(ex, e, st):
    """ml_sound(l, d, t, big): every member of the list l is a key of d whose list has >= t entries (big) / fewer than t entries (not big)."""
    chi, d, t = _ml(ex.ev(e.args[0], st)), _dict(ex.ev(e.args[1], st)), _int(ex.ev(e.args[2], st))
    big = isinstance(e.args[3], ast.Constant) and e.args[3].value is True
    x = z3.Int("x#mls")
    from pyvc.sym import qforall
    return qforall([x], z3.Implies(chi[x], z3.And(d.has[x], d.vlen[x] >= t if big else d.vlen[x] < t)), [chi[x]])


def sp_lm_indexed(ex, e, st):
    """lm_indexed(d, pos): the insertion order of d lists exactly its keys, each once, and pos[v] is the position of key v (the representation invariant of a
    Python dict with the position function made explicit)."""
    d, pos = _dict(ex.ev(e.args[0], st)), ex.ev(e.args[1], st)
    v, i = z3.Int("v#lix"), z3.Int("i#lix")
    o = d.order
    from pyvc.sym import qforall
    return z3.And(o.n >= 0,
                  qforall([v], z3.Implies(d.has[v], z3.And(0 <= pos[v], pos[v] < o.n, o.at(pos[v]) == v)), [d.has[v]]),
                  qforall([i], z3.Implies(z3.And(0 <= i, i < o.n), z3.And(d.has[o.at(i)], pos[o.at(i)] == i)), [o.at(i)]))


def sp_lm_classified(ex, e, st):
    """lm_classified(d, pos, n, r, s): every key listed before position n is a member of r or of s."""
    d, pos, n = _dict(ex.ev(e.args[0], st)), ex.ev(e.args[1], st), _int(ex.ev(e.args[2], st))
    r, s_ = _ml(ex.ev(e.args[3], st)), _ml(ex.ev(e.args[4], st))
    v = z3.Int("v#lcf")
    from pyvc.sym import qforall
    return qforall([v], z3.Implies(z3.And(d.has[v], pos[v] < n), z3.Or(r[v], s_[v])), [d.has[v]])


def sp_lm_processed(ex, e, st):
    """lm_processed(d, pos, n, r, new): every key of d listed before position n that is not a member of r is a key of new; no member of r is."""
    d, pos, n = _dict(ex.ev(e.args[0], st)), ex.ev(e.args[1], st), _int(ex.ev(e.args[2], st))
    r, new = _ml(ex.ev(e.args[3], st)), _dict(ex.ev(e.args[4], st))
    v, x = z3.Int("v#lpr"), z3.Int("x#lpr")
    from pyvc.sym import qforall
    return z3.And(qforall([v], z3.Implies(z3.And(d.has[v], pos[v] < n, z3.Not(r[v])), new.has[v]), [d.has[v]]),
                  qforall([x], z3.Implies(new.has[x], z3.Not(r[x])), [new.has[x]]))


def sp_lm_kept_big(ex, e, st):
    """lm_kept_big(new, d, t): every key of new has at least t entries in d."""
    new, d, t = _dict(ex.ev(e.args[0], st)), _dict(ex.ev(e.args[1], st)), _int(ex.ev(e.args[2], st))
    v = z3.Int("v#lkb")
    from pyvc.sym import qforall
    return qforall([v], z3.Implies(new.has[v], d.vlen[v] >= t), [new.has[v]])


def sp_lm_full(ex, e, st):
    """lm_full(new, d, r, s): no list of new lost an entry: same length as in d and every entry is a member of s and not of r."""
    new, d = _dict(ex.ev(e.args[0], st)), _dict(ex.ev(e.args[1], st))
    r, s_ = _ml(ex.ev(e.args[2], st)), _ml(ex.ev(e.args[3], st))
    v = z3.Int("v#lfu")
    from pyvc.sym import qforall
    body = z3.And(new.vlen[v] == d.vlen[v], *[z3.Implies(iv(i) < new.vlen[v], z3.And(s_[new.varr[v][iv(i)]], z3.Not(r[new.varr[v][iv(i)]]))) for i in range(4)])
    return qforall([v], z3.Implies(new.has[v], body), [new.has[v]])


def _cnt_s(d, v, S):
    return z3.Sum([z3.If(z3.And(iv(i) < d.vlen[v], S[d.varr[v][iv(i)]] != 0), 1, 0) for i in range(4)])


def sp_lm_sclosed(ex, e, st):
    """lm_sclosed(d, S, t): the vertex set S (ghost array, member = non-zero) lies inside the keys of d and every member lists at least t members of S
    (entries counted as the code counts them, by list position)."""
    d, S, t = _dict(ex.ev(e.args[0], st)), ex.ev(e.args[1], st), _int(ex.ev(e.args[2], st))
    v = z3.Int("v#lsc")
    from pyvc.sym import qforall
    return qforall([v], z3.Implies(S[v] != 0, z3.And(d.has[v], _cnt_s(d, v, S) >= t)), [S[v]])


def sp_lm_skept(ex, e, st):
    """lm_skept(d, pos, n, new, S, t): every member of S listed in d before position n is a key of new and still lists at least t members of S there."""
    d, pos, n = _dict(ex.ev(e.args[0], st)), ex.ev(e.args[1], st), _int(ex.ev(e.args[2], st))
    new, S, t = _dict(ex.ev(e.args[3], st)), ex.ev(e.args[4], st), _int(ex.ev(e.args[5], st))
    v = z3.Int("v#lsk")
    from pyvc.sym import qforall
    return qforall([v], z3.Implies(z3.And(S[v] != 0, pos[v] < n), z3.And(new.has[v], _cnt_s(new, v, S) >= t)), [S[v]])


def sp_ml_outside(ex, e, st):
    """ml_outside(l, S): no member of the list l is a member of S."""
    chi, S = _ml(ex.ev(e.args[0], st)), ex.ev(e.args[1], st)
    x = z3.Int("x#mlo")
    from pyvc.sym import qforall
    return qforall([x], z3.Implies(chi[x], S[x] == 0), [chi[x]])


def sp_scount(ex, e, st):
    """scount(S, l, n): number of positions i < n (n <= 4) of the list l whose entry is a member of S."""
    S, l, n = ex.ev(e.args[0], st), _seq(ex.ev(e.args[1], st)), _int(ex.ev(e.args[2], st))
    return z3.Sum([z3.If(z3.And(iv(i) < n, S[l.at(iv(i))] != 0), 1, 0) for i in range(4)])


def sp_lm_shift(ex, e, st):
    """lm_shift(d, k): every key is a vertex of order k, its list has at most four entries and each entry w is the shift successor of the key that ends in
    nucleotide w mod 4 (in ANY order, repetitions allowed)."""
    d, k = _dict(ex.ev(e.args[0], st)), _int(ex.ev(e.args[1], st))
    _use_succ(ex)
    v = z3.Int("v#lsh")
    from pyvc.sym import qforall
    ent = [z3.Implies(iv(i) < d.vlen[v], z3.And(d.varr[v][iv(i)] >= 0, d.varr[v][iv(i)] == specz3.succ4(v, d.varr[v][iv(i)] % 4, k))) for i in range(4)]
    return qforall([v], z3.Implies(d.has[v], z3.And(0 <= v, v < sp_ipow_val(4, k), 0 <= d.vlen[v], d.vlen[v] <= 4, *ent)), [d.has[v]])


def sp_lm_written(ex, e, st):
    """lm_written(acc, d, k[, pos, n]): column j of row v holds the j-th shift successor of v exactly when v is a key (listed before position n) whose list
    contains that successor, and -1 otherwise."""
    acc, d, k = _mat(ex.ev(e.args[0], st)), _dict(ex.ev(e.args[1], st)), _int(ex.ev(e.args[2], st))
    _use_succ(ex)
    v = z3.Int("v#lwr")
    listed = d.has[v]
    if len(e.args) > 3:
        pos, n = ex.ev(e.args[3], st), _int(ex.ev(e.args[4], st))
        listed = z3.And(d.has[v], pos[v] < n)
    from pyvc.sym import qforall
    cols = [acc.at(v, iv(j)) == z3.If(z3.And(listed, _lmemb(d, v, specz3.succ4(v, iv(j), k))), specz3.succ4(v, iv(j), k), -1) for j in range(4)]
    return qforall([v], z3.Implies(z3.And(0 <= v, v < acc.rows), z3.And(*cols)), [acc.arr2[v]])


def sp_occurs(ex, e, st):
    m, s_ = _seq(ex.ev(e.args[0], st)), _seq(ex.ev(e.args[1], st))
    return specz3.occ(m.arr, m.start, m.n, s_.arr, s_.start, s_.n)


def _rc_code(ex, m):
    """the reverse complement as the code computes it: four single-character replaces, reverse, upper."""
    ex.use_str_axioms()
    a = m.arr
    for x, y in (("A", "t"), ("C", "g"), ("G", "c"), ("T", "a")):
        a = specz3.repl(a, iv(ord(x)), iv(ord(y)))
    return Seq("str", "char", specz3.upper(specz3.rev(a, m.start, m.n)), m.n)


def sp_rc_code(ex, e, st):
    return _rc_code(ex, _seq(ex.ev(e.args[0], st)))


def _gc(s, lo, hi):
    return specz3.cnt(s.arr, iv(s.delta), add(s.start, lo), add(s.start, hi), iv(67)) + specz3.cnt(s.arr, iv(s.delta), add(s.start, lo), add(s.start, hi), iv(71))


def _at(s, lo, hi):
    return specz3.cnt(s.arr, iv(s.delta), add(s.start, lo), add(s.start, hi), iv(65)) + specz3.cnt(s.arr, iv(s.delta), add(s.start, lo), add(s.start, hi), iv(84))


def sp_filter_ok(ex, e, st):
    """filter_ok(filter, s): the documented whole-sequence verdict of the local filter on s: only A/C/G/T; no nucleotide repeated more than the
    allowed run; neither a motif nor its reverse complement occurs; every window of the observed length has a G+C count within [lo*k, hi*k]
    (a shorter string: G+C <= hi*k and A+T <= (1-lo)*k).  Float products are the opaque terms the code itself computes."""
    from pyvc.sym import FloatV
    f, s_ = ex.ev(e.args[0], st), _seq(ex.ev(e.args[1], st))
    k = _int(f.fields["observed_length"])
    parts = [s_.forall(lambda v: z3.Or(v == 65, v == 67, v == 71, v == 84))]
    run = f.fields["max_homopolymer_runs"]
    if not isinstance(run, NoneV):
        n_ = z3.simplify(z3.If(1 + _int(run) > 0, 1 + _int(run), 0))
        for ch in "ACGT":
            parts.append(z3.Not(specz3.occ(z3.K(z3.IntSort(), iv(ord(ch))), iv(0), n_, s_.arr, s_.start, s_.n)))
    mot = f.fields["undesired_motifs"]
    if not isinstance(mot, NoneV):
        for m in mot.items:
            parts.append(z3.Not(specz3.occ(m.arr, m.start, m.n, s_.arr, s_.start, s_.n)))
            rc = _rc_code(ex, m)
            parts.append(z3.Not(specz3.occ(rc.arr, rc.start, rc.n, s_.arr, s_.start, s_.n)))
    gc = f.fields["gc_range"]
    if not isinstance(gc, NoneV):
        fm = z3.Function("fmulr", z3.RealSort(), z3.IntSort(), z3.RealSort())
        fs = z3.Function("fsubr", z3.IntSort(), z3.RealSort(), z3.RealSort())
        lo, hi = gc.items[0].term, gc.items[1].term
        i = z3.Int("i#fok")          # a name no contract lambda can bind (a nested quantifier must not capture the enclosing variable)
        win = z3.ForAll([i], z3.Implies(z3.And(HERE(i), 0 <= i, i < s_.n - k + 1),
                                        z3.And(z3.Not(z3.ToReal(_gc(s_, i, i + k)) > fm(hi, k)), z3.Not(z3.ToReal(_gc(s_, i, i + k)) < fm(lo, k)))),
                        patterns=[HERE(i)])
        short = z3.And(z3.Not(z3.ToReal(_gc(s_, iv(0), s_.n)) > fm(hi, k)), z3.Not(z3.ToReal(_at(s_, iv(0), s_.n)) > fm(fs(iv(1), lo), k)))
        parts.append(z3.If(s_.n >= k, win, short))
    return z3.And(*parts)


def sp_succ(ex, e, st):
    """succ(v, j, k): the j-th shift successor of vertex v (order k)."""
    _use_succ(ex)
    return specz3.succ4(_int(ex.ev(e.args[0], st)), _int(ex.ev(e.args[1], st)), _int(ex.ev(e.args[2], st)))


def sp_is_accessor(ex, e, st):
    acc, k = _mat(ex.ev(e.args[0], st)), _int(ex.ev(e.args[1], st))
    v = z3.Int("v#acc")
    _use_succ(ex)
    body = z3.And(*[z3.Or(acc.at(v, j) == -1, acc.at(v, j) == specz3.succ4(v, iv(j), k)) for j in range(4)])
    return z3.And(acc.rows == sp_ipow_val(4, k), acc.cols == 4, z3.ForAll([v], z3.Implies(z3.And(0 <= v, v < acc.rows), body), patterns=[acc.arr2[v]]))


def sp_is_table(ex, e, st):
    t, k = ex.ev(e.args[0], st), _int(ex.ev(e.args[1], st))
    if isinstance(t, NoneV):
        return z3.BoolVal(True)
    t = _mat(t)
    v = fresh("v")
    ent = [t.at(v, j) for j in range(4)]
    body = z3.And(*[z3.And(x >= 0, x <= 3) for x in ent], z3.Distinct(*ent))
    return z3.And(t.rows == sp_ipow_val(4, k), t.cols == 4, z3.ForAll([v], z3.Implies(z3.And(0 <= v, v < t.rows), body), patterns=[t.arr2[v]]))


def sp_walkv(ex, e, st):
    """walkv(acc, s, start, p): vertex after the first p characters of s from start, -1 once the prefix stops being a walk."""
    acc, s = _mat(ex.ev(e.args[0], st)), _seq(ex.ev(e.args[1], st))
    if s.delta != 0:
        from pyvc.engine import Unsupported
        raise Unsupported("walk over a shifted string view")
    return specz3.walkv(acc.arr2, s.arr, s.start, _int(ex.ev(e.args[2], st)), _int(ex.ev(e.args[3], st)))


def sp_enc_step(ex, e, st):
    """enc_step(acc, shuffles, gq, vtx, s, p): position p of strand s follows the published scheme: at vertex vtx[p] with out-degree d,
    d > 1: digit gq[p] % d selects the arc, gq[p+1] = gq[p] // d;  d == 1: the only arc, gq unchanged;  and gq[p] > 0."""
    acc, shuf = _mat(ex.ev(e.args[0], st)), ex.ev(e.args[1], st)
    gq, vtx, s = _seq(ex.ev(e.args[2], st)), _seq(ex.ev(e.args[3], st)), _seq(ex.ev(e.args[4], st))
    p = _int(ex.ev(e.args[5], st))
    v = vtx.at(p)
    d = row_deg(acc, v)
    x = gq.at(p)
    # divisions and remainders by the LITERAL radices 2, 3, 4 (selected by the out-degree): linear arithmetic for the solvers
    digit = z3.If(d == 2, x % 2, z3.If(d == 3, x % 3, x % 4))
    nxt = z3.If(d == 2, x / 2, z3.If(d == 3, x / 3, z3.If(d == 4, x / 4, x)))
    col = z3.If(d > 1, row_arc(acc, shuf, v, digit), row_arc(acc, NONE, v, iv(0)))
    nuc = z3.If(col == 0, iv(65), z3.If(col == 1, iv(67), z3.If(col == 2, iv(71), iv(84))))
    return z3.And(0 <= v, v < acc.rows, d >= 1, x > 0, gq.at(p + 1) == nxt,
                  s.at(p) == nuc, vtx.at(p + 1) == acc.arr2[v][col], acc.arr2[v][col] >= 0)


def sp_fast_step(ex, e, st):
    """fast_step(acc, shuffles, bits, loc, vtx, s, p): position p of a fast-mode strand: at vertex vtx[p] with out-degree d (1, 2 or 4) and bit cursor
    loc[p] < len(bits):  d = 4 consumes two bits, most significant first (a missing last bit reads as 0), d = 2 one bit, d = 1 none; the digit selects
    the live arc by rank; the cursor and the vertex advance accordingly."""
    acc, shuf = _mat(ex.ev(e.args[0], st)), ex.ev(e.args[1], st)
    bits, loc, vtx, s = [_seq(ex.ev(x, st)) for x in e.args[2:6]]
    p = _int(ex.ev(e.args[6], st))
    v = vtx.at(p)
    d = row_deg(acc, v)
    c = loc.at(p)
    second = z3.If(c + 1 < bits.n, bits.at(c + 1), iv(0))
    digit = z3.If(d == 4, 2 * bits.at(c) + second, bits.at(c))
    col = z3.If(d > 1, row_arc(acc, shuf, v, digit), row_arc(acc, NONE, v, iv(0)))
    nuc = z3.If(col == 0, iv(65), z3.If(col == 1, iv(67), z3.If(col == 2, iv(71), iv(84))))
    return z3.And(0 <= v, v < acc.rows, z3.Or(d == 1, d == 2, d == 4), 0 <= c, c < bits.n,
                  loc.at(p + 1) == c + z3.If(d == 4, 2, z3.If(d == 2, 1, 0)),
                  s.at(p) == nuc, vtx.at(p + 1) == acc.arr2[v][col], acc.arr2[v][col] >= 0)


def sp_fast_cells(ex, e, st):
    """fast_cells(out, dgp, ddp, locd, p): the bit cells written for position p: out-degree 4 -> cells locd[p] (digit // 2) and locd[p]+1 (digit % 2, if it
    exists); out-degree 2 -> cell locd[p] (the digit); out-degree 1 -> none; and locd advances by the number of bits."""
    out, dgp, ddp, locd = [_seq(ex.ev(x, st)) for x in e.args[:4]]
    p = _int(ex.ev(e.args[4], st))
    d, g, c = dgp.at(p), ddp.at(p), locd.at(p)
    return z3.And(z3.Or(d == 1, d == 2, d == 4), 0 <= c,
                  locd.at(p + 1) == c + z3.If(d == 4, 2, z3.If(d == 2, 1, 0)),
                  z3.Implies(d == 4, z3.And(c < out.n, out.at(c) == g / 2, z3.Implies(c + 1 < out.n, out.at(c + 1) == g % 2))),
                  z3.Implies(d == 2, z3.And(c < out.n, out.at(c) == g)))


def sp_floc(ex, e, st):
    acc, s = _mat(ex.ev(e.args[0], st)), _seq(ex.ev(e.args[1], st))
    return specz3.flocf(acc.arr2, s.arr, s.start, _int(ex.ev(e.args[2], st)), _int(ex.ev(e.args[3], st)))


def sp_link(ex, e, st):
    """link(dg, dd, gq, i): position i contributes digit dd[i] in radix dg[i] to the quotient chain: gq[i] == dd[i] + dg[i] * gq[i+1],
    written per literal radix 1..4 so that no product of two unknowns occurs."""
    dg, dd, gq = [_seq(ex.ev(x, st)) for x in e.args[:3]]
    i = _int(ex.ev(e.args[3], st))
    cases = [z3.And(dg.at(i) == r, gq.at(i) == dd.at(i) + r * gq.at(i + 1), 0 <= dd.at(i), dd.at(i) < r) for r in (1, 2, 3, 4)]
    return z3.Or(*cases)


def sp_first(ex, e, st):
    from pyvc.sym import PairSeq
    v = ex.ev(e.args[0], st)
    if not isinstance(v, PairSeq):
        from pyvc.engine import Unsupported
        raise Unsupported("first() of something that is not a list of pairs")
    return v.a


def sp_second(ex, e, st):
    from pyvc.sym import PairSeq
    v = ex.ev(e.args[0], st)
    if not isinstance(v, PairSeq):
        from pyvc.engine import Unsupported
        raise Unsupported("second() of something that is not a list of pairs")
    return v.b


def sp_dec_step(ex, e, st):
    """dec_step(acc, shuffles, dgp, ddp, vtx, s, p): character p of s is a live arc of vertex vtx[p]; dgp[p] is that vertex's out-degree and
    ddp[p] the digit the arc stands for (0 at a vertex with a single arc); vtx[p+1] is where the arc leads."""
    acc, shuf = _mat(ex.ev(e.args[0], st)), ex.ev(e.args[1], st)
    dgp, ddp, vtx, s = [_seq(ex.ev(x, st)) for x in e.args[2:6]]
    p = _int(ex.ev(e.args[6], st))
    v = vtx.at(p)
    d = row_deg(acc, v)
    col = specz3.code_of(s.at(p))
    digit = row_rank(acc, shuf, v, 3)
    for c in (2, 1, 0):
        digit = z3.If(col == c, row_rank(acc, shuf, v, c), digit)
    return z3.And(0 <= v, v < acc.rows, col >= 0, acc.arr2[v][col] >= 0, vtx.at(p + 1) == acc.arr2[v][col],
                  dgp.at(p) == d, ddp.at(p) == z3.If(d > 1, digit, iv(0)))


def sp_wt(ex, e, st):
    dg = _seq(ex.ev(e.args[0], st))
    return specz3.wtf(dg.arr, add(dg.start, _int(ex.ev(e.args[1], st))), add(dg.start, _int(ex.ev(e.args[2], st))))


def sp_lv(ex, e, st):
    dg, dd = _seq(ex.ev(e.args[0], st)), _seq(ex.ev(e.args[1], st))
    if lit(dg.start) != 0 or lit(dd.start) != 0:
        from pyvc.engine import Unsupported
        raise Unsupported("mixed-radix value over shifted ghost arrays")
    return specz3.lvf(dg.arr, dd.arr, _int(ex.ev(e.args[2], st)), _int(ex.ev(e.args[3], st)))


def sp_hv(ex, e, st):
    dg, dd = _seq(ex.ev(e.args[0], st)), _seq(ex.ev(e.args[1], st))
    if lit(dg.start) != 0 or lit(dd.start) != 0:
        from pyvc.engine import Unsupported
        raise Unsupported("mixed-radix value over shifted ghost arrays")
    return specz3.hvf(dg.arr, dd.arr, _int(ex.ev(e.args[2], st)), _int(ex.ev(e.args[3], st)))


HERE = z3.Function("here", z3.IntSort(), z3.BoolSort())      # instantiation marker: mark(t) in ghost code assumes here(t)


def sp_shuffled_row(ex, e, st):
    """shuffled_row(seed, i): the row numpy's generator produces from [0, 1, 2, 3] as its (i+1)-th shuffle after seed(seed)."""
    seed, i = _int(ex.ev(e.args[0], st)), _int(ex.ev(e.args[1], st))
    return specz3.rng_shuffle(specz3.rng_at(seed, i), iv(0), iv(1), iv(2), iv(3))


def sp_rng_is(ex, e, st):
    """rng_is(seed, i): the global generator is in the state reached by seed(seed) followed by i shuffles."""
    from pyvc import library
    return library.rng_state(ex, st) == specz3.rng_at(_int(ex.ev(e.args[0], st)), _int(ex.ev(e.args[1], st)))


def sp_row_is(ex, e, st):
    """row_is(matrix, r, row array): the four entries of row r are those of the given row value."""
    m = _mat(ex.ev(e.args[0], st))
    r = _int(ex.ev(e.args[1], st))
    a = ex.ev(e.args[2], st)
    return z3.And(*[m.at(r, j) == a[j] for j in range(4)])


def sp_here(ex, e, st):
    return HERE(_int(ex.ev(e.args[0], st)))


def sp_ascents(ex, e, st):
    """ascents(s[, upto]): sum of the 0-based positions p < upto (default len(s) - 1) where nucleotide p is followed by a larger one."""
    s = codes_seq(ex, _seq(ex.ev(e.args[0], st)))
    hi = _int(ex.ev(e.args[1], st)) if len(e.args) > 1 else s.n - 1
    return specz3.asum(s.arr, s.start, s.start, add(s.start, hi))


def sp_nsucc(ex, e, st):
    """nsucc(X, v, k): number of the four shift successors of v that are marked (non-zero) in the 0/1 array X."""
    x = _seq(ex.ev(e.args[0], st))
    v, k = _int(ex.ev(e.args[1], st)), _int(ex.ev(e.args[2], st))
    _use_succ(ex)
    tot = None
    for j in range(4):
        t = z3.If(x.at(specz3.succ4(v, iv(j), k)) != 0, iv(1), iv(0))
        tot = t if tot is None else tot + t
    return tot


def sp_ipow_val(b, x):
    lx = lit(x)
    if lx is not None and lx >= 0:
        return iv(b ** lx)
    return specz3.ipow(iv(b), x)


def sp_rwalkv(ex, e, st):
    a = [ex.ev(x, st) for x in e.args]
    return specz3.walkv(a[0], a[1], _int(a[2]), _int(a[3]), _int(a[4]))


def sp_A2(ex, e, st):
    return _mat(ex.ev(e.args[0], st)).arr2


def sp_vt_matches(ex, e, st):
    """vt_matches(check, s): check is the documented VT check of strand s (of length len(check) >= 1)."""
    c, s = _seq(ex.ev(e.args[0], st)), _seq(ex.ev(e.args[1], st))
    cs = codes_seq(ex, s)
    cc = codes_seq(ex, c)
    dna = c.forall(lambda v: z3.Or(v == 65, v == 67, v == 71, v == 84))
    return z3.And(c.n >= 1, dna, specz3.code_of(c.at(0)) == specz3.ssum(cs.arr, iv(0), cs.start, add(cs.start, cs.n)) % 4,
                  specz3.seq_pv(cc, iv(1), cc.n, 4) == specz3.asum(cs.arr, cs.start, cs.start, add(cs.start, cs.n - 1)) % sp_ipow_val(4, c.n - 1))


def sp_rwt(ex, e, st):
    return specz3.wtf(ex.ev(e.args[0], st), _int(ex.ev(e.args[1], st)), _int(ex.ev(e.args[2], st)))


def sp_rlv(ex, e, st):
    return specz3.lvf(ex.ev(e.args[0], st), ex.ev(e.args[1], st), _int(ex.ev(e.args[2], st)), _int(ex.ev(e.args[3], st)))


def sp_rhv(ex, e, st):
    return specz3.hvf(ex.ev(e.args[0], st), ex.ev(e.args[1], st), _int(ex.ev(e.args[2], st)), _int(ex.ev(e.args[3], st)))


def sp_rsum(ex, e, st):
    """raw sum rsum(a, d, lo, hi) over an array value (lemma language)."""
    a = ex.ev(e.args[0], st)
    d, lo, hi = [_int(ex.ev(x, st)) for x in e.args[1:4]]
    return specz3.ssum(a, d, lo, hi)


def sp_accepts(ex, e, st):
    """accepts(filter, i, k): verdict of the (abstract) filter on the i-th k-mer."""
    from pyvc import library
    f = ex.ev(e.args[0], st)
    return library.VERDICT(f.fields["__id__"], _int(ex.ev(e.args[2], st)), _int(ex.ev(e.args[1], st)))


SPEC = {
    "forall": sp_forall, "forall_q": lambda ex, e, st: sp_forall(ex, e, st, expand=False), "exists": lambda ex, e, st: sp_forall(ex, e, st, exists=True), "implies": sp_implies, "old": sp_old,
    "digits": sp_digits, "val": sp_val, "dval": sp_dval, "val2": sp_val2, "canon": sp_canon, "ipow": sp_ipow, "dig": sp_dig,
    "same": sp_same_seq, "upd": sp_upd, "accepts": sp_accepts, "haskey": sp_haskey, "order": sp_order, "sorted_positions": sp_sorted_positions, "lm_of": sp_lm_of, "lmemb": sp_lmemb, "lm_small": sp_lm_small, "lm_sub": sp_lm_sub, "lm_closed": sp_lm_closed, "aupd": sp_aupd, "lmlen": sp_lmlen, "ml_sound": sp_ml_sound, "lm_indexed": sp_lm_indexed, "lm_classified": sp_lm_classified, "lm_processed": sp_lm_processed, "lm_kept_big": sp_lm_kept_big, "lm_full": sp_lm_full, "lm_sclosed": sp_lm_sclosed, "lm_skept": sp_lm_skept, "ml_outside": sp_ml_outside, "scount": sp_scount, "lm_shift": sp_lm_shift, "lm_written": sp_lm_written, "comp": sp_comp, "chr_": sp_chr, "gc_window_ok": sp_gc_window_ok, "occurs": sp_occurs, "rc_code": sp_rc_code, "filter_ok": sp_filter_ok, "succ": sp_succ, "shuffled_row": sp_shuffled_row, "rng_is": sp_rng_is, "row_is": sp_row_is, "rdeg": sp_rdeg, "rarc": sp_rarc, "rdigit": sp_rdigit, "is_perm_row": sp_is_perm_row, "row": sp_row, "rwalkv": sp_rwalkv, "A2": sp_A2, "vt_matches": sp_vt_matches, "rwt": sp_rwt, "rlv": sp_rlv, "rhv": sp_rhv, "here": sp_here, "deg": sp_deg, "arc_of_digit": sp_arc_of_digit, "digit_of_arc": sp_digit_of_arc, "is_accessor": sp_is_accessor,
    "is_table": sp_is_table, "first": sp_first, "second": sp_second, "dec_step": sp_dec_step, "walkv": sp_walkv, "enc_step": sp_enc_step, "fast_step": sp_fast_step, "fast_cells": sp_fast_cells, "floc": sp_floc, "link": sp_link, "wt": sp_wt, "lv": sp_lv, "hv": sp_hv, "ascents": sp_ascents, "nsucc": sp_nsucc, "rsum": sp_rsum, "code": sp_code, "dnav": sp_dnav, "codes": sp_codes, "is_dna": sp_is_dna, "pv": sp_pv, "store": sp_store, "A": sp_A, "D": sp_D, "P": sp_P, "seq_is": sp_seq_is, "seq_is_cons": sp_seq_is_cons, "ite": sp_ite, "isnone": sp_isnone, "cnt": sp_cnt, "ssum": sp_ssum,
}


def sp_candidates_ok(ex, e, st):
    """candidates_ok(lst, name): every element of lst satisfies the element invariant the contract declares for the collection `name`.  For a value derived
    from that collection the invariant holds by construction (each add carried it as an obligation); for a literal list it is evaluated per element."""
    from pyvc.calls import Coll, coll_invariant
    from pyvc.engine import Unsupported
    v = ex.ev(e.args[0], st)
    name = e.args[1].value
    if isinstance(v, Coll):
        if v.name != name:
            raise Unsupported("candidates_ok on a different collection")
        return z3.BoolVal(True)
    if isinstance(v, Tup):
        return z3.And(*[coll_invariant(ex, st, name, x) for x in v.items]) if v.items else z3.BoolVal(True)
    if isinstance(v, Seq) and lit(v.n) == 0:
        return z3.BoolVal(True)           # the empty list literal
    raise Unsupported("candidates_ok of this value (sidecar no longer binds)")


def sp_sorted_unique(ex, e, st):
    """sorted_unique(lst): strictly increasing.  True for sorted(list(set)) by the library contract and for literal lists of at most one element."""
    from pyvc.calls import Coll
    from pyvc.engine import Unsupported
    v = ex.ev(e.args[0], st)
    if isinstance(v, Coll):
        return z3.BoolVal(v.form == "sorted")
    if isinstance(v, Tup) and len(v.items) <= 1:
        return z3.BoolVal(True)
    if isinstance(v, Seq) and lit(v.n) == 0:
        return z3.BoolVal(True)           # the empty list literal
    raise Unsupported("sorted_unique of this value (sidecar no longer binds)")


SPEC["candidates_ok"] = sp_candidates_ok
SPEC["sorted_unique"] = sp_sorted_unique


ISCORE = z3.Function("iscore", z3.ArraySort(z3.IntSort(), z3.BoolSort()), z3.ArraySort(z3.IntSort(), z3.ArraySort(z3.IntSort(), z3.IntSort())),
                     z3.ArraySort(z3.IntSort(), z3.IntSort()), z3.IntSort(), z3.BoolSort(), z3.BoolSort(), z3.IntSort(), z3.IntSort(), z3.IntSort())


def sp_iscore(ex, e, st):
    """iscore(latter_map, k, has_insertion, has_deletion, v, j): THE intersection score of the arc in column j of vertex v - an uninterpreted function of the
    graph (keys, successor lists), the order and the two error-model flags.  What the score IS is the callee's business (assumed contract, bounded tier);
    naming it lets a caller's contract say 'the maximum score of THIS graph under THESE flags'."""
    from pyvc.engine import tobool
    d = _dict(ex.ev(e.args[0], st))
    k = _int(ex.ev(e.args[1], st))
    ins, dele = tobool(ex.ev(e.args[2], st)), tobool(ex.ev(e.args[3], st))
    return ISCORE(d.has, d.varr, d.vlen, k, ins, dele, _int(ex.ev(e.args[4], st)), _int(ex.ev(e.args[5], st)))


SPEC["iscore"] = sp_iscore


def _edit(ex, e, st):
    s2, s1 = _seq(ex.ev(e.args[0], st)), _seq(ex.ev(e.args[1], st))
    loc = _int(ex.ev(e.args[2], st))
    return s2, s1, loc


def sp_is_subst(ex, e, st):
    """is_subst(s2, s, p, c): s2 is s with the character at position p replaced by c."""
    s2, s1, loc = _edit(ex, e, st)
    c = _seq(ex.ev(e.args[3], st))
    q = z3.Int("q#sub")
    return z3.And(c.n == 1, s2.n == s1.n, 0 <= loc, loc < s1.n, s2.at(loc) == c.at(0),
                  z3.ForAll([q], z3.Implies(z3.And(0 <= q, q < s1.n, q != loc), s2.at(q) == s1.at(q))))


def sp_is_ins(ex, e, st):
    """is_ins(s2, s, p, c): s2 is s with c inserted before position p."""
    s2, s1, loc = _edit(ex, e, st)
    c = _seq(ex.ev(e.args[3], st))
    q = z3.Int("q#ins")
    return z3.And(c.n == 1, s2.n == s1.n + 1, 0 <= loc, loc <= s1.n, s2.at(loc) == c.at(0),
                  z3.ForAll([q], z3.Implies(z3.And(0 <= q, q < s1.n), z3.If(q < loc, s2.at(q) == s1.at(q), s2.at(q + 1) == s1.at(q)))))


def sp_is_del(ex, e, st):
    """is_del(s2, s, p): s2 is s without the character at position p."""
    s2, s1, loc = _edit(ex, e, st)
    q = z3.Int("q#del")
    return z3.And(s2.n == s1.n - 1, 0 <= loc, loc < s1.n,
                  z3.ForAll([q], z3.Implies(z3.And(0 <= q, q < s2.n), z3.If(q < loc, s2.at(q) == s1.at(q), s2.at(q) == s1.at(q + 1)))))


SPEC["is_subst"] = sp_is_subst
SPEC["is_ins"] = sp_is_ins
SPEC["is_del"] = sp_is_del


def _use_ind4(ex):
    if not getattr(ex, "_ind4_on", False):
        ex._ind4_on = True
        ex.axioms += specz3.ind4_axioms()


def sp_arc_row(ex, e, st):
    """arc_row(m, acc, v): row v of the matrix m is the 0/1 indicator of the (at most four) arc targets in row v of the accessor (-1 entries denote no
    arc and are never a column): an equality of whole rows, ind4 is defined point-wise."""
    m, acc = _mat(ex.ev(e.args[0], st)), _mat(ex.ev(e.args[1], st))
    v = _int(ex.ev(e.args[2], st))
    _use_ind4(ex)
    return m.arr2[v] == specz3.ind4(acc.at(v, 0), acc.at(v, 1), acc.at(v, 2), acc.at(v, 3))


def sp_zero_row(ex, e, st):
    m = _mat(ex.ev(e.args[0], st))
    v = _int(ex.ev(e.args[1], st))
    return m.arr2[v] == z3.K(z3.IntSort(), iv(0))


SPEC["arc_row"] = sp_arc_row
SPEC["zero_row"] = sp_zero_row


def sp_arc_rows(ex, e, st):
    """arc_rows(m, acc, lo, hi): for lo <= v < hi and every column w of m: m[v][w] == 1 if w is one of the four entries of accessor row v else 0."""
    m, acc = _mat(ex.ev(e.args[0], st)), _mat(ex.ev(e.args[1], st))
    lo, hi = _int(ex.ev(e.args[2], st)), _int(ex.ev(e.args[3], st))
    v, w = z3.Int("v#ar"), z3.Int("w#ar")
    hit = z3.Or(*[acc.at(v, j) == w for j in range(4)])
    from pyvc.sym import qforall
    return qforall([v, w], z3.Implies(z3.And(lo <= v, v < hi, 0 <= w, w < m.cols), m.arr2[v][w] == z3.If(hit, iv(1), iv(0))), [m.arr2[v][w]])


def sp_zero_rows(ex, e, st):
    m = _mat(ex.ev(e.args[0], st))
    lo, hi = _int(ex.ev(e.args[1], st)), _int(ex.ev(e.args[2], st))
    v, w = z3.Int("v#zr"), z3.Int("w#zr")
    from pyvc.sym import qforall
    return qforall([v, w], z3.Implies(z3.And(lo <= v, v < hi, 0 <= w, w < m.cols), m.arr2[v][w] == 0), [m.arr2[v][w]])


SPEC["arc_rows"] = sp_arc_rows
SPEC["zero_rows"] = sp_zero_rows


def sp_legal_rows(ex, e, st):
    """legal_rows(m, k, lo, hi): in rows lo..hi-1 of the square 0/1 matrix m every 1 sits in a column that is a shift successor of its row (order k)."""
    m = _mat(ex.ev(e.args[0], st))
    k = _int(ex.ev(e.args[1], st))
    lo, hi = _int(ex.ev(e.args[2], st)), _int(ex.ev(e.args[3], st))
    _use_succ(ex)
    v, w = z3.Int("v#lr"), z3.Int("w#lr")
    from pyvc.sym import qforall
    ok = z3.Or(*[w == specz3.succ4(v, iv(j), k) for j in range(4)])
    return qforall([v, w], z3.Implies(z3.And(lo <= v, v < hi, 0 <= w, w < m.cols, m.arr2[v][w] == 1), ok), [m.arr2[v][w]])


SPEC["legal_rows"] = sp_legal_rows


def _seq0(ex, x, st):
    s_ = _seq(ex.ev(x, st))
    if s_.delta != 0:
        from pyvc.engine import Unsupported
        raise Unsupported("breadth-first step over a shifted view")
    return s_


def sp_fmn(ex, e, st):
    """fmn(acc, b, i): number of live successors of the first i entries of the list b."""
    acc, b = _mat(ex.ev(e.args[0], st)), _seq0(ex, e.args[1], st)
    return specz3.fmn(acc.arr2, b.arr, b.start, _int(ex.ev(e.args[2], st)))


def sp_fm(ex, e, st):
    """fm(acc, b, i, p): the p-th element of the flat map of live successors (A<C<G<T order) over the first i entries of b."""
    acc, b = _mat(ex.ev(e.args[0], st)), _seq0(ex, e.args[1], st)
    return specz3.fma(acc.arr2, b.arr, b.start, _int(ex.ev(e.args[2], st)))[_int(ex.ev(e.args[3], st))]


def sp_levn(ex, e, st):
    """levn(acc, v, d): the number of d-step walks from v."""
    acc = _mat(ex.ev(e.args[0], st))
    return specz3.levn(acc.arr2, _int(ex.ev(e.args[1], st)), _int(ex.ev(e.args[2], st)))


def sp_lev(ex, e, st):
    """lev(acc, v, d, p): the end point of the p-th d-step walk from v (breadth-first order, successors in A<C<G<T order)."""
    acc = _mat(ex.ev(e.args[0], st))
    return specz3.leva(acc.arr2, _int(ex.ev(e.args[1], st)), _int(ex.ev(e.args[2], st)))[_int(ex.ev(e.args[3], st))]


def sp_levarr(ex, e, st):
    """levarr(acc, v, d): the array of end points itself (for lemma calls)."""
    acc = _mat(ex.ev(e.args[0], st))
    return specz3.leva(acc.arr2, _int(ex.ev(e.args[1], st)), _int(ex.ev(e.args[2], st)))


def sp_rfmn(ex, e, st):
    return specz3.fmn(ex.ev(e.args[0], st), ex.ev(e.args[1], st), _int(ex.ev(e.args[2], st)), _int(ex.ev(e.args[3], st)))


def sp_rfm(ex, e, st):
    return specz3.fma(ex.ev(e.args[0], st), ex.ev(e.args[1], st), _int(ex.ev(e.args[2], st)), _int(ex.ev(e.args[3], st)))[_int(ex.ev(e.args[4], st))]


SPEC.update({"fmn": sp_fmn, "fm": sp_fm, "levn": sp_levn, "lev": sp_lev, "levarr": sp_levarr, "rfmn": sp_rfmn, "rfm": sp_rfm})


def sp_occ_pos(ex, e, st):
    """occ_pos(m, s): the position of an occurrence of m in s when there is one (skolem function of the definition of `occurs`)."""
    m, s_ = _seq(ex.ev(e.args[0], st)), _seq(ex.ev(e.args[1], st))
    return specz3.opos(m.arr, m.start, m.n, s_.arr, s_.start, s_.n)


def sp_run_of(ex, e, st):
    """run_of(f, c): the string of max_homopolymer_runs + 1 copies of the character c (the forbidden run of the filter f), as filter_ok denotes it."""
    f = ex.ev(e.args[0], st)
    c = _seq(ex.ev(e.args[1], st))
    n_ = z3.simplify(z3.If(1 + _int(f.fields["max_homopolymer_runs"]) > 0, 1 + _int(f.fields["max_homopolymer_runs"]), 0))
    txt = getattr(c, "const", None)
    return Seq("str", "char", z3.K(z3.IntSort(), iv(ord(txt))), n_)


SPEC["occ_pos"] = sp_occ_pos
SPEC["run_of"] = sp_run_of


def sp_rcnt(ex, e, st):
    """raw cnt(a, d, lo, hi, x) over an array value (lemma language)."""
    a = ex.ev(e.args[0], st)
    d, lo, hi, x = [_int(ex.ev(y, st)) for y in e.args[1:5]]
    return specz3.cnt(a, d, lo, hi, x)


def sp_compc(ex, e, st):
    """compc(x): complement of a character code (an integer): A<->T, C<->G, anything else unchanged."""
    c = _int(ex.ev(e.args[0], st))
    return z3.If(c == 65, iv(84), z3.If(c == 84, iv(65), z3.If(c == 67, iv(71), z3.If(c == 71, iv(67), c))))


SPEC["rcnt"] = sp_rcnt
SPEC["compc"] = sp_compc
