"""The contract language: Python expressions (parsed by ast, evaluated by the same evaluator as the code) plus
old(), result, forall/exists(lambda j: .., lo, hi), implies(a, b) and the spec functions of contracts/specs.py."""
import ast

import z3

from pyvc import specz3
from pyvc.sym import iv, add, sub, lit, fresh, Seq, Tup, NONE, NoneV, Mat, Row, Obj, FloatV, const_str

_cache = {}


def parse(txt):
    if txt not in _cache:
        _cache[txt] = ast.parse(txt.strip(), mode="eval").body
    return _cache[txt]


def evaluate(ex, txt, st, extra):
    from pyvc.engine import tobool
    scratch = st.clone()
    scratch.env = dict(st.env)
    scratch.env.update(extra)
    ex.quiet += 1
    saved_pending = ex.pending
    ex.pending = []
    saved_defer = getattr(ex, "_defer", [])
    ex._defer = []
    try:
        return ex.ev(parse(txt), scratch)
    finally:
        ex.quiet -= 1
        ex.pending = saved_pending
        ex._defer = saved_defer


def _bool(v):
    from pyvc.engine import tobool
    return tobool(v)


def _int(v):
    from pyvc.engine import toint
    return toint(v)


def sp_forall(ex, e, st, exists=False):
    lam = e.args[0]
    if not isinstance(lam, ast.Lambda):
        raise ValueError("forall needs a lambda")
    names = [a.arg for a in lam.args.args]
    t = st.clone()
    vs = []
    for n in names:
        v = fresh(n)
        t.env[n] = v
        vs.append(v)
    guard = []
    if len(e.args) >= 3:
        lo, hi = _int(ex.ev(e.args[1], st)), _int(ex.ev(e.args[2], st))
        guard = [lo <= vs[0], vs[0] < hi]
    body = _bool(ex.ev(lam.body, t))
    if exists:
        return z3.Exists(vs, z3.And(*guard, body))
    return z3.ForAll(vs, z3.Implies(z3.And(*guard), body) if guard else body)


def sp_implies(ex, e, st):
    return z3.Implies(_bool(ex.ev(e.args[0], st)), _bool(ex.ev(e.args[1], st)))


def sp_old(ex, e, st):
    t = st.clone()
    t.env = dict(ex.old)
    return ex.ev(e.args[0], t)


def _seq(v):
    if not isinstance(v, Seq):
        from pyvc.engine import Unsupported
        raise Unsupported(f"contract expression expects a sequence, the code now has {v!r} there (sidecar no longer binds)")
    return v


def sp_digits(ex, e, st):
    s = _seq(ex.ev(e.args[0], st))
    lo = _int(ex.ev(e.args[1], st)) if len(e.args) > 1 else None
    hi = _int(ex.ev(e.args[2], st)) if len(e.args) > 2 else None
    top = lit(_int(ex.ev(e.args[3], st))) if len(e.args) > 3 else 9
    return specz3.seq_digits(s, lo, hi, top)


def sp_val(ex, e, st):
    s = _seq(ex.ev(e.args[0], st))
    lo = _int(ex.ev(e.args[1], st))
    hi = _int(ex.ev(e.args[2], st))
    base = _int(ex.ev(e.args[3], st)) if len(e.args) > 3 else iv(10)
    return specz3.seq_pv(s, lo, hi, base)


def sp_dval(ex, e, st):
    s = _seq(ex.ev(e.args[0], st))
    return specz3.seq_pv(s, iv(0), s.n, iv(10))


def sp_val2(ex, e, st):
    s = _seq(ex.ev(e.args[0], st))
    return specz3.seq_pv(s, iv(0), s.n, iv(2))


def sp_val4(ex, e, st):
    """base-4 value of a DNA string: code(c) is not an affine map of the code point, so it goes through codes()."""
    raise ValueError("val4 on raw strings is not available; use val(codes, lo, hi, 4)")


def sp_canon(ex, e, st):
    s = _seq(ex.ev(e.args[0], st))
    return z3.And(s.n >= 1, specz3.seq_digits(s), z3.Or(s.n == 1, specz3.digit_of(s, 0) != 0))


def sp_ipow(ex, e, st):
    b, x = _int(ex.ev(e.args[0], st)), _int(ex.ev(e.args[1], st))
    lb, lx = lit(b), lit(x)
    if lb is not None and lx is not None and lx >= 0:
        return iv(lb ** lx)
    return specz3.ipow(b, x)


def sp_dig(ex, e, st):
    s = _seq(ex.ev(e.args[0], st))
    return specz3.digit_of(s, _int(ex.ev(e.args[1], st)))


def sp_same_seq(ex, e, st):
    """element-wise equality of two sequences over a range: same(a, b, lo, hi)"""
    a, b = _seq(ex.ev(e.args[0], st)), _seq(ex.ev(e.args[1], st))
    lo, hi = _int(ex.ev(e.args[2], st)), _int(ex.ev(e.args[3], st))
    j = fresh("j")
    return z3.ForAll([j], z3.Implies(z3.And(lo <= j, j < hi), a.at(j) == b.at(j)))


def sp_ite(ex, e, st):
    c = _bool(ex.ev(e.args[0], st))
    a, b = ex.ev(e.args[1], st), ex.ev(e.args[2], st)
    return z3.If(c, _int(a), _int(b))


def sp_isnone(ex, e, st):
    return z3.BoolVal(isinstance(ex.ev(e.args[0], st), NoneV))


def sp_cnt(ex, e, st):
    """cnt(s, lo, hi, 'C') : number of positions in [lo, hi) holding that character / int."""
    s = _seq(ex.ev(e.args[0], st))
    lo, hi = _int(ex.ev(e.args[1], st)), _int(ex.ev(e.args[2], st))
    x = ex.ev(e.args[3], st)
    x = x.at(0) if isinstance(x, Seq) else _int(x)
    return specz3.cnt(s.arr, iv(s.delta), add(s.start, lo), add(s.start, hi), x)


def sp_ssum(ex, e, st):
    s = _seq(ex.ev(e.args[0], st))
    lo, hi = _int(ex.ev(e.args[1], st)), _int(ex.ev(e.args[2], st))
    return specz3.ssum(s.arr, iv(s.delta), add(s.start, lo), add(s.start, hi))


def sp_seq_is(ex, e, st):
    """seq_is(a, b): a and b are the same sequence value (same array, window and offset)."""
    a, b = _seq(ex.ev(e.args[0], st)), _seq(ex.ev(e.args[1], st))
    if a.delta != b.delta:
        return z3.And(a.n == b.n, sp_same_core(a, b, iv(0), a.n))
    return z3.And(a.arr == b.arr, a.start == b.start, a.n == b.n)


def sp_same_core(a, b, lo, hi):
    j = fresh("j")
    return z3.ForAll([j], z3.Implies(z3.And(lo <= j, j < hi), a.at(j) == b.at(j)))


def sp_seq_is_cons(ex, e, st):
    """seq_is_cons(a, x, b): a == [x] + b   (as produced by b.insert(0, x))."""
    a, b = _seq(ex.ev(e.args[0], st)), _seq(ex.ev(e.args[2], st))
    x = ex.ev(e.args[1], st)
    x = x.at(0) if isinstance(x, Seq) else _int(x)
    if a.delta != b.delta:
        raise ValueError("seq_is_cons over different views")
    raw = x if b.delta == 0 else sub(x, b.delta)
    return z3.And(a.arr == z3.Store(b.arr, sub(b.start, 1), raw), a.start == sub(b.start, 1), a.n == add(b.n, 1))


def sp_upd(ex, e, st):
    """upd(s, j, v): the sequence s with element j replaced by v (a value, nothing is mutated)."""
    a = _seq(ex.ev(e.args[0], st))
    j = _int(ex.ev(e.args[1], st))
    v = ex.ev(e.args[2], st)
    v = v.at(0) if isinstance(v, Seq) else _int(v)
    return a.store(j, v)


SPEC = {
    "forall": sp_forall, "exists": lambda ex, e, st: sp_forall(ex, e, st, exists=True), "implies": sp_implies, "old": sp_old,
    "digits": sp_digits, "val": sp_val, "dval": sp_dval, "val2": sp_val2, "canon": sp_canon, "ipow": sp_ipow, "dig": sp_dig,
    "same": sp_same_seq, "upd": sp_upd, "seq_is": sp_seq_is, "seq_is_cons": sp_seq_is_cons, "ite": sp_ite, "isnone": sp_isnone, "cnt": sp_cnt, "ssum": sp_ssum,
}
