"""Lemmas: quantified facts with hand-chosen triggers that code proofs may use.  Each lemma here is PROVED by the engine
(contracts/lemmas.py holds an inductive proof as a ghost loop in the Python subset, verified like any other function) and
its statement is generated from the same text, so the axiom asserted in code VCs is exactly what was proved."""
import z3

from pyvc import specz3
from pyvc.sym import I, A, iv


def _vars():
    return dict(a=z3.Const("a_", A), d=z3.Int("d_"), lo=z3.Int("lo_"), hi=z3.Int("hi_"), mid=z3.Int("mid_"), i=z3.Int("i_"),
                v=z3.Int("v_"), b=z3.Int("b_"), x=z3.Int("x_"))


def axioms_of(registry, name):
    V = _vars()
    a, d, lo, hi, mid, i, v, b, x = (V[k] for k in ("a", "d", "lo", "hi", "mid", "i", "v", "b", "x"))
    pv = specz3.pv
    if name == "pv_store_frame":      # a store at or after hi, or before lo, does not change the value of [lo, hi)
        return [z3.ForAll([a, d, lo, hi, b, i, v], z3.Implies(z3.Or(i >= hi, i < lo), pv(z3.Store(a, i, v), d, lo, hi, b) == pv(a, d, lo, hi, b)),
                          patterns=[pv(z3.Store(a, i, v), d, lo, hi, b)])]
    if name == "pv_leading_zeros":    # a zero-valued prefix can be dropped
        return [z3.ForAll([a, d, lo, mid, hi, b], z3.Implies(z3.And(lo <= mid, mid <= hi, b >= 2, pv(a, d, lo, mid, b) == 0),
                                                            pv(a, d, lo, hi, b) == pv(a, d, mid, hi, b)),
                          patterns=[z3.MultiPattern(pv(a, d, lo, hi, b), pv(a, d, mid, hi, b))])]
    if name == "pv_nonneg":           # digits >= 0 => value >= 0   (stated with the digit hypothesis as a quantified premise)
        q = z3.Int("q_")
        return [z3.ForAll([a, d, lo, hi, b], z3.Implies(z3.And(b >= 2, z3.ForAll([q], z3.Implies(z3.And(lo <= q, q < hi), a[q] + d >= 0))),
                                                       pv(a, d, lo, hi, b) >= 0), patterns=[pv(a, d, lo, hi, b)])]
    raise KeyError(name)
