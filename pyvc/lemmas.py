"""Lemmas: facts with an inductive proof.  contracts/lemmas.py holds, per lemma, its statement (requires/ensures over raw arrays and
ints), its proof (a ghost loop in the Python subset, verified by the engine as the unit `lemma.<name>`) and optionally triggers.
Code proofs use a lemma either by an explicit ghost call (instantiation) or - when it has triggers - as a quantified axiom that is
GENERATED HERE FROM THE SAME STATEMENT, so what is asserted is exactly what was proved."""
import ast
import itertools

import z3

from pyvc.sym import I, A, iv


def axioms_of(registry, name):
    from pyvc.engine import Exec, State, tobool
    from pyvc import speclang
    L = registry.lemmas[name]
    if not L.get("triggers"):
        raise KeyError(f"lemma {name} has no triggers: use it by an explicit ghost call")
    dummy = Exec("lemma-axiom." + name, ast.parse("def f():\n    pass\n").body[0], {"lemmas": []}, registry)
    dummy.old = {}
    out = []
    split = L.get("split", {})
    keys = sorted(split)
    for combo in itertools.product(*[split[k] for k in keys]) if keys else [()]:
        fixed = dict(zip(keys, combo))
        st = State()
        bound = []
        for p, shape in L["params"].items():
            if p in fixed:
                st.env[p] = iv(fixed[p])
            else:
                from pyvc.sym import A2
                v = z3.Const(p + "_", A if shape == "arr" else (A2 if shape == "arr2" else I))
                st.env[p] = v
                bound.append(v)
        req = [tobool(speclang.evaluate(dummy, t, st, {})) for t in L["requires"].values()]
        ens = [tobool(speclang.evaluate(dummy, t, st, {})) for t in L["ensures"].values()]
        trig = [speclang.evaluate(dummy, t, st, {}) for t in L["triggers"]]
        pat = z3.MultiPattern(*trig) if len(trig) > 1 else trig[0]
        out.append(z3.ForAll(bound, z3.Implies(z3.And(*req) if req else z3.BoolVal(True), z3.And(*ens)), patterns=[pat]))
    return out
