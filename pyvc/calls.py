"""Semantics of calls: builtins and methods of the modelled subset (DESIGN.md section 2), trusted library contracts
(section 3, in pyvc/library.py) and calls to repository functions, which are replaced by the callee's CONTRACT."""
import ast

import z3

from pyvc import specz3, speclang
from pyvc.sym import (I, B, A, iv, add, sub, lit, fresh, fresh_seq, Seq, Tup, Mat, Row, Obj, FloatV, NONE, NoneV, const_str, const_list)


def U(msg):
    from pyvc.engine import Unsupported
    return Unsupported(msg)


def toint(v):
    from pyvc.engine import toint as t
    return t(v)


def tobool(v):
    from pyvc.engine import tobool as t
    return t(v)


def kwargs_of(ex, e, st, names):
    """positional + keyword arguments -> dict by parameter name (values evaluated left to right)."""
    out = {}
    for n, a in zip(names, e.args):
        out[n] = ex.ev(a, st)
    for k in e.keywords:
        out[k.arg] = ex.ev(k.value, st)
    return out


def call(ex, e, st):
    f = e.func
    if isinstance(f, ast.Name):
        name = f.id
        if name in speclang.SPEC and (ex.quiet or name in ("forall", "forall_q", "exists", "implies", "old")):
            return speclang.SPEC[name](ex, e, st)
        if name in st.env and isinstance(st.env[name], Obj) and st.env[name].cls == "Monitor":
            return monitor_call(ex, e, st)
        if name in ("min", "max") and len(e.args) == 2 and not e.keywords:
            mod = (ex.c.get("function") or ex.qualname).split(".")[1] if (ex.c.get("function") or ex.qualname).startswith("dsw.") else None
            if name not in ex.registry.numpy_names.get(mod, set()):          # the builtin, not numpy's (whose second argument is an axis)
                a_, b_ = toint(ex.ev(e.args[0], st)), toint(ex.ev(e.args[1], st))
                return z3.If(a_ <= b_, a_, b_) if name == "min" else z3.If(a_ >= b_, a_, b_)
        if name in BUILTINS:
            return BUILTINS[name](ex, e, st)
        from pyvc import library
        if name in library.FUNCS:
            return library.FUNCS[name](ex, e, st)
        if name in ex.registry.lemmas:
            return apply_lemma(ex, e, st, ex.registry.lemmas[name])
        c = ex.registry.contract_for(name)
        if c is not None:
            return call_contract(ex, e, st, name, c)
        if name in speclang.SPEC:
            return speclang.SPEC[name](ex, e, st)
        raise U(f"call of {name} (no semantics, no contract) at line {e.lineno}")
    if isinstance(f, ast.Attribute):
        return method(ex, e, st)
    raise U("call of a computed function")


def call_stmt(ex, e, st):
    f = e.func
    if isinstance(f, ast.Attribute) and isinstance(f.value, ast.Name) and f.attr in ("append", "insert"):
        name = f.value.id
        base = st.env.get(name)
        from pyvc.sym import PairSeq
        if isinstance(base, PairSeq) and f.attr == "append":
            v = ex.ev(e.args[0], st)
            if not (isinstance(v, Tup) and len(v.items) == 2):
                raise U("append of a non-pair to a list of pairs")
            st.env[name] = PairSeq(append(base.a, toint(v.items[0])), append(base.b, toint(v.items[1])))
            return
        if isinstance(base, Tup) and f.attr == "append":
            st.env[name] = Tup(base.items + [ex.ev(e.args[0], st)])
            return
        from pyvc.sym import CList, MemList
        if isinstance(base, MemList) and f.attr == "append":
            ex.frame_store(st, name, e.lineno)
            st.env[name] = MemList(z3.Store(base.chi, toint(ex.ev(e.args[0], st)), z3.BoolVal(True)))
            return
        if isinstance(base, CList) and f.attr == "append":
            ex.ev(e.args[0], st)                         # the argument is evaluated (its own exceptions are obligations); only the length is kept
            ex.frame_store(st, name, e.lineno)
            st.env[name] = CList(base.n + 1)
            return
        if isinstance(base, Seq) and base.kind == "list":
            if name in st.aliased:
                raise U(f"mutation of possibly aliased list {name}")
            ex.frame_store(st, name, e.lineno)
            if f.attr == "append":
                v = ex.ev(e.args[0], st)
                st.env[name] = append(base, v)
                return
            posv = toint(ex.ev(e.args[0], st))
            pos = lit(posv)
            v = ex.ev(e.args[1], st)
            if pos != 0:
                # list.insert(p, x) with 0 <= p <= len (an obligation; other positions clamp in Python and are not modelled)
                ex.prove(st, f"insert-position-in-range:{ex.ordinal('ins')}", z3.And(posv >= 0, posv <= base.n), e.lineno)
                val = v.at(0) if isinstance(v, Seq) else toint(v)
                out = Seq(base.kind, base.elem, fresh(name, A), base.n + 1, iv(0), 0, base.dtype)
                q = z3.Int("q#ins")
                st.assume(z3.ForAll([q], z3.Implies(z3.And(0 <= q, q < out.n), out.arr[q] == z3.If(q < posv, base.at(q), z3.If(q == posv, val, base.at(q - 1)))),
                                    patterns=[out.arr[q]]))
                st.env[name] = out
                return
            st.env[name] = prepend(base, v)
            return
    if isinstance(f, ast.Attribute) and isinstance(f.value, ast.Name) and f.attr == "append" and isinstance(st.env.get(f.value.id), Coll) \
            and st.env[f.value.id].form == "plainlist":
        x = ex.ev(e.args[0], st)
        ex.prove(st, f"collection-invariant:{f.value.id}:{ex.ordinal('coll')}", coll_invariant(ex, st, f.value.id, x), e.lineno)
        return
    if isinstance(f, ast.Attribute) and isinstance(f.value, ast.Name) and f.attr == "add" and isinstance(st.env.get(f.value.id), Coll):
        x = ex.ev(e.args[0], st)
        ex.prove(st, f"collection-invariant:{f.value.id}:{ex.ordinal('coll')}", coll_invariant(ex, st, f.value.id, x), e.lineno)
        return
    if isinstance(f, ast.Attribute) and isinstance(f.value, ast.Name) and f.attr == "add" and isinstance(st.env.get(f.value.id), PySet):
        base = st.env[f.value.id]
        if base.items:
            raise U("adding to a non-empty set (element equality)")
        st.env[f.value.id] = PySet([ex.ev(e.args[0], st)])
        return
    if isinstance(f, ast.Name) and f.id == "print":
        return
    if isinstance(f, ast.Attribute) and f.attr == "__init__" and isinstance(f.value, ast.Call) and isinstance(f.value.func, ast.Name) \
            and f.value.func.id == "super":
        return          # DefaultBioFilter.__init__ only records the screen name
    if isinstance(f, ast.Name) and f.id == "cut":
        return cut(ex, e, st)
    if isinstance(f, ast.Name) and f.id in ("stash", "unstash"):
        return stash(ex, e, st, f.id)
    if isinstance(f, ast.Name) and f.id == "forget_eq":
        # ghost: take an unstashed fact out of the queries again (it stays in the stash); weakening only
        g = st.stash.get(e.args[0].value)
        if g is not None:
            st.pc = [p_ for p_ in st.pc if not p_.eq(g)]
        return
    if isinstance(f, ast.Name) and f.id == "forget":
        # ghost: forget("name", ..) drops the hypotheses that mention one of these spec functions (weakening the path condition is sound)
        names = [a.value for a in e.args]
        keep = []
        for p_ in st.pc:
            txt = p_.sexpr()
            if not any(("(" + n_ + " ") in txt for n_ in names):
                keep.append(p_)
        st.pc = keep
        return
    if isinstance(f, ast.Name) and f.id == "same_string":
        # ghost: same_string(lst, k, s): the string held at the literal position k of the list `lst` is proved equal (length and every character) to the
        # string s, and from here on it is denoted by s's term.  Python strings are immutable values: two strings with equal content are
        # indistinguishable to everything modelled here (identity tests are unsupported), so renaming the term changes no behaviour.
        from pyvc.sym import seq_eq
        name = e.args[0].id
        k_ = e.args[1].value
        base = st.env[name]
        ex.quiet += 1
        try:
            other = ex.ev(e.args[2], st.clone())
        finally:
            ex.quiet -= 1
        if not (isinstance(base, Tup) and isinstance(base.items[k_], Seq) and isinstance(other, Seq) and base.items[k_].kind == "str" and other.kind == "str"):
            raise U("same_string on something that is not a string in a list")
        ex.prove(st, f"same-string:{ex.ordinal('same')}", seq_eq(base.items[k_], other), e.lineno)
        items = list(base.items)
        items[k_] = other
        st.env[name] = Tup(items)
        return
    if isinstance(f, ast.Name) and f.id in ("occ_elim", "occ_intro"):
        # ghost: the two directions of the DEFINITION of substring occurrence (Python's `m in s`, the predicate occ of the contracts):
        #   occurs(m, s)  <=>  exists p. 0 <= p <= len(s) - len(m) and s[p + i] == m[i] for all i < len(m)
        # occ_elim(m, s): assumes the definition, left to right, with the witness occ_pos(m, s);  occ_intro(m, s, p): PROVES that p is a
        # matching position and then assumes occurs(m, s).  occ has no other axioms, so this is a conservative (definitional) extension.
        from pyvc.engine import tobool
        ex.quiet += 1
        try:
            m_ = ex.ev(e.args[0], st.clone())
            s_ = ex.ev(e.args[1], st.clone())
            p_ = toint(ex.ev(e.args[2], st.clone())) if f.id == "occ_intro" else None
        finally:
            ex.quiet -= 1
        if not (isinstance(m_, Seq) and isinstance(s_, Seq)):
            raise U("occ_elim / occ_intro on non-strings")
        occ_ = specz3.occ(m_.arr, m_.start, m_.n, s_.arr, s_.start, s_.n)
        i_ = z3.Int("i#occ")
        ex.trusted_used.add("definition of substring occurrence: occurs(m, s) <=> some position p matches (skolemised: occ_pos)")
        if f.id == "occ_elim":
            pos = specz3.opos(m_.arr, m_.start, m_.n, s_.arr, s_.start, s_.n)
            base = s_.start + pos           # absolute index into the array of s: the trigger s.arr[j] carries no arithmetic
            st.assume(z3.Implies(occ_, z3.And(0 <= pos, pos <= s_.n - m_.n,
                                               z3.ForAll([i_], z3.Implies(z3.And(base <= i_, i_ < base + m_.n), s_.arr[i_] + s_.delta == m_.arr[m_.start + (i_ - base)] + m_.delta),
                                                         patterns=[s_.arr[i_]]))))
        else:
            k_ = ex.ordinal('occi')
            ex.prove(st, f"occ-intro:position-in-range:{k_}", z3.And(0 <= p_, p_ <= s_.n - m_.n), e.lineno)
            base = s_.start + p_
            ex.prove(st, f"occ-intro:characters-match:{k_}",
                     z3.ForAll([i_], z3.Implies(z3.And(base <= i_, i_ < base + m_.n), s_.arr[i_] + s_.delta == m_.arr[m_.start + (i_ - base)] + m_.delta)), e.lineno)
            st.assume(occ_)
        return
    if isinstance(f, ast.Name) and f.id == "mark":
        # ghost: mark(t) makes the facts whose trigger is here(.) available at t.  here is an otherwise unconstrained predicate, so
        # assuming it for chosen terms is conservative; it only steers quantifier instantiation.
        for a in e.args:
            ex.quiet += 1
            try:
                v = toint(ex.ev(a, st.clone()))
            finally:
                ex.quiet -= 1
            st.assume(speclang.HERE(v))
        return
    call(ex, e, st)


def cut(ex, e, st):
    """ghost cut point: cut(F1, F2, ..) proves each fact in the current state and continues from a state that assumes ONLY the
    precondition and those facts (a weakening of the path condition: sound, and it keeps later queries small)."""
    facts = []
    ids = ex.__dict__.setdefault("_cut_ids", {})          # one name per cut STATEMENT (not per path): the same cut reached on another path is the same obligation
    k = ids.setdefault(id(e), len(ids) + 1)
    for n_, a in enumerate(e.args):
        ex.quiet += 1
        try:
            g = tobool(ex.ev(a, st.clone()))
        finally:
            ex.quiet -= 1
        ex.prove(st, f"cut{k}:fact{n_ + 1}", g, e.lineno)
        facts.append(g)
    st.pc = list(ex.entry_pc) + facts


def stash(ex, e, st, what):
    """ghost: stash("name", F) proves F now and sets it aside (a formula over immutable terms stays true on this path);
    unstash("name") assumes it again later.  Used to keep facts that cause matching loops out of queries that do not need them."""
    name = e.args[0].value
    if what == "stash":
        ex.quiet += 1
        try:
            g = tobool(ex.ev(e.args[1], st.clone()))
        finally:
            ex.quiet -= 1
        ex.prove(st, f"stash:{name}", g, e.lineno)
        st.stash[name] = g
        st.pc = [p_ for p_ in st.pc if not p_.eq(g)]       # set aside: out of the queries until unstash(name)
    else:
        if name not in st.stash:
            raise U(f"unstash of unknown fact {name}")
        st.assume(st.stash[name])


def elem_raw(base, v):
    if isinstance(v, Seq):
        if lit(v.n) != 1:
            raise U("list element that is a string longer than 1")
        if base.elem != "char" and lit(base.n) != 0:
            raise U("mixing characters into an int list")
        base.elem = "char"
        x = v.at(0)
    else:
        x = toint(v)
    return x if base.delta == 0 else sub(x, base.delta)


def append(base, v):
    raw = elem_raw(base, v)
    return Seq(base.kind, base.elem, z3.Store(base.arr, add(base.start, base.n), raw), add(base.n, 1), base.start, base.delta, base.dtype)


def prepend(base, v):
    raw = elem_raw(base, v)
    return Seq(base.kind, base.elem, z3.Store(base.arr, sub(base.start, 1), raw), add(base.n, 1), sub(base.start, 1), base.delta, base.dtype)


def delete(ex, s, st):
    """del d[k][i] (an entry of a list held in a dict) and del d[k] (a key), d an  int -> list of ints  dict."""
    from pyvc.engine import Outcome
    from pyvc.sym import DictV
    if len(s.targets) == 1 and isinstance(s.targets[0], ast.Name):
        st.env.pop(s.targets[0].id, None)           # del name: the binding goes away
        return [Outcome("normal", st)]
    if len(s.targets) != 1 or not isinstance(s.targets[0], ast.Subscript):
        raise U("del statement")
    tgt = s.targets[0]
    line = s.lineno

    def atom(t):
        """a key / position that is an if-then-else term is named by a fresh constant (ite terms may not occur in triggers built over the updated maps)."""
        from pyvc.sym import has_ite
        if z3.is_expr(t) and has_ite(t):
            c_ = fresh("key")
            st.assume(c_ == t)
            return c_
        return t
    if isinstance(tgt.value, ast.Subscript) and isinstance(tgt.value.value, ast.Name) and isinstance(st.env.get(tgt.value.value.id), DictV):
        name = tgt.value.value.id
        d = st.env[name]
        k_ = atom(toint(ex.ev(tgt.value.slice, st)))
        ex.may_raise(st, "KeyError", z3.Not(d.has[k_]), f"key:{ex.ordinal('key')}", line)
        lst = d.value(k_)
        i_ = atom(toint(ex.ev(tgt.slice, st)))
        ex.may_raise(st, "IndexError", z3.Or(i_ < -lst.n, i_ >= lst.n), f"index:{ex.ordinal('idx')}", line)
        i_ = z3.If(i_ < 0, i_ + lst.n, i_)
        ex.frame_store(st, name, line)
        new = z3.K(I, iv(0))
        for p_ in range(lst.maxlen - 1):            # the list without position i (lists held in these dicts have at most maxlen entries)
            new = z3.Store(new, p_, z3.If(p_ < i_, lst.arr[p_], lst.arr[p_ + 1]))
        st.env[name] = DictV(d.has, z3.Store(d.varr, k_, new), z3.Store(d.vlen, k_, lst.n - 1), d.order)
        return [Outcome("normal", st)]
    if isinstance(tgt.value, ast.Name) and isinstance(st.env.get(tgt.value.id), DictV):
        name = tgt.value.id
        d = st.env[name]
        k_ = atom(toint(ex.ev(tgt.slice, st)))
        ex.may_raise(st, "KeyError", z3.Not(d.has[k_]), f"key:{ex.ordinal('key')}", line)
        ex.frame_store(st, name, line)
        # insertion order without k: the position q of k is a witness (a key that is present occurs in the order - representation invariant)
        q = fresh("delpos")
        order = fresh_seq("order", d.order.kind, d.order.elem)
        i = z3.Int("i#del")
        st.assume(z3.And(0 <= q, q < d.order.n, d.order.at(q) == k_, order.n == d.order.n - 1))
        st.assume(z3.ForAll([i], z3.Implies(z3.And(0 <= i, i < order.n), order.arr[i] == z3.If(i < q, d.order.at(i), d.order.at(i + 1))), patterns=[order.arr[i]]))
        st.env[name] = DictV(z3.Store(d.has, k_, z3.BoolVal(False)), d.varr, d.vlen, order)
        return [Outcome("normal", st)]
    if isinstance(tgt.value, ast.Name) and isinstance(st.env.get(tgt.value.id), Seq) and st.env[tgt.value.id].kind == "list":
        name = tgt.value.id
        base = st.env[name]
        if name in st.aliased:
            raise U(f"del on possibly aliased list {name}")
        posv = toint(ex.ev(tgt.slice, st))
        ex.may_raise(st, "IndexError", z3.Or(posv < -base.n, posv >= base.n), f"index:{ex.ordinal('idx')}", line)
        ex.prove(st, f"del-position-nonnegative:{ex.ordinal('delpos')}", posv >= 0, line)          # negative positions are not modelled
        ex.frame_store(st, name, line)
        out = Seq(base.kind, base.elem, fresh(name, A), base.n - 1, iv(0), 0, base.dtype)
        q = z3.Int("q#del")
        st.assume(z3.ForAll([q], z3.Implies(z3.And(0 <= q, q < out.n), out.arr[q] == z3.If(q < posv, base.at(q), base.at(q + 1))), patterns=[out.arr[q]]))
        st.env[name] = out
        return [Outcome("normal", st)]
    raise U("del statement")


# ---------------------------------------------------------------------------------------------- builtins
def b_len(ex, e, st):
    v = ex.ev(e.args[0], st)
    from pyvc.sym import PairSeq, DictV, LazySeq
    if isinstance(v, (Seq, PairSeq, LazySeq)):
        return v.n
    if isinstance(v, DictV):
        return v.order.n
    if isinstance(v, tuple) and v and v[0] == "dictview":
        return v[2].order.n
    if isinstance(v, Tup):
        return iv(len(v.items))
    if isinstance(v, PySet):
        return iv(len(v.items))
    from pyvc.sym import CList, MemList
    if isinstance(v, CList):
        return v.n
    if isinstance(v, MemList):
        # only the set of elements is tracked: the length is some n >= 0 that is 0 exactly when there is no element
        n_ = fresh("len")
        x_ = z3.Int("x#mlen")
        st.assume(n_ >= 0)
        st.assume((n_ == 0) == z3.ForAll([x_], z3.Not(v.chi[x_]), patterns=[v.chi[x_]]))
        return n_
    from pyvc.engine import is_opaque
    if is_opaque(v) or isinstance(v, Coll):
        n_ = fresh("len")
        st.assume(n_ >= 0)
        return n_
    if isinstance(v, Mat):
        return v.rows
    if isinstance(v, Row):
        return v.n
    raise U(f"len of {v!r}")


INT_MAX_STR_DIGITS = 4300      # sys.get_int_max_str_digits() default (CPython >= 3.11); checked against the interpreter by selftest/library_conformance.py


def b_int(ex, e, st):
    v = ex.ev(e.args[0], st)
    from pyvc.sym import MaybeFloat
    if isinstance(v, MaybeFloat):
        return v.value
    if isinstance(v, Seq) and v.elem == "char":
        # CPython: int(str) raises ValueError on a non-numeral AND on more than sys.int_max_str_digits (4300) digit characters
        ex.may_raise(st, "ValueError", z3.Not(z3.And(v.n >= 1, specz3.seq_digits(v), v.n <= INT_MAX_STR_DIGITS)), f"int-of-str:{ex.ordinal('int')}", e.lineno)
        if lit(v.n) == 1:
            return specz3.digit_of(v, 0)
        return specz3.seq_pv(v, iv(0), v.n, 10)
    if isinstance(v, FloatV):
        if ex.c.get("opaque_floats"):
            return fresh("int_of_float")          # some integer (the float is finite: listed assumption)
        from pyvc import library
        return library.int_of_float(ex, st, v, e.lineno)
    return toint(v)


def dec_str(ex, st, x, line):
    """str(int): exact for 0..9, otherwise a fresh canonical decimal string with that value (x >= 0 obligation)."""
    lx = lit(x)
    if lx is not None and lx >= 0:
        return const_str(str(lx))
    s = z3.Solver()
    out1 = Seq("str", "char", z3.Store(z3.K(I, iv(0)), 0, x + 48), iv(1))
    ex.quiet_prove = True
    # is 0 <= x <= 9 known on this path?  (cheap check; if not, fall back to the general contract)
    from pyvc.engine import make_solver
    sv = make_solver(1500)
    sv.add(*ex._query(st, [z3.Not(z3.And(x >= 0, x <= 9))]))
    if sv.check() == z3.unsat:
        out1.intval = x            # the integer whose decimal rendering this one-character string is
        return out1
    if ex.c.get("opaque_floats"):
        out = fresh_seq("decstr", "str", "char")          # the rendering of an integer of unknown sign: some non-empty string (only used for display)
        st.assume(out.n >= 1)
        return out
    ex.prove(st, f"str-of-nonnegative-int:{ex.ordinal('str')}", x >= 0, line)
    st.assume(x >= 0)
    # CPython: str(int) raises ValueError beyond 4300 digits
    ex.prove(st, f"str-of-int-within-digit-limit:{ex.ordinal('strlim')}", x < iv(10 ** INT_MAX_STR_DIGITS), line)
    out = fresh_seq("decstr", "str", "char")
    out.intval = x
    st.assume(z3.And(out.n >= 1, specz3.seq_digits(out), z3.Or(out.n == 1, specz3.digit_of(out, 0) != 0),
                     specz3.seq_pv(out, iv(0), out.n, 10) == x))
    return out


def b_str(ex, e, st):
    v = ex.ev(e.args[0], st)
    if isinstance(v, Seq) and v.kind == "str":
        return v
    if z3.is_expr(v) and z3.is_int(v):
        return dec_str(ex, st, v, e.lineno)
    if isinstance(v, tuple) and v and v[0] == "type":
        return const_str(f"<class '{v[1]}'>")
    raise U(f"str() of {v!r}")


def b_list(ex, e, st):
    v = ex.ev(e.args[0], st)
    if isinstance(v, tuple) and v and v[0] == "dictview" and v[1] == "keys":
        o = v[2].order
        return Seq("list", "int", o.arr, o.n, o.start, o.delta, None)          # a fresh list of the keys in insertion order
    if isinstance(v, Coll) and v.form == "set":
        return Coll(v.name, "list")
    if isinstance(v, Coll) and v.form == "plainlist":
        return v
    if isinstance(v, PySet):
        if len(v.items) > 1:
            raise U("list() of a set with several elements (iteration order)")
        return Tup(list(v.items))
    if isinstance(v, Seq):
        if v.kind == "str":
            return v.retag("list", "char")
        out = Seq("list", v.elem, v.arr, v.n, v.start, v.delta, None)
        if getattr(v, "maxlen", None) is not None:
            out.maxlen = v.maxlen
        return out
    if isinstance(v, tuple) and v[0] == "mapped":
        return v[1]
    raise U(f"list() of {v!r}")


def b_map(ex, e, st):
    fn, src_e = e.args[0], e.args[1]
    src = ex.ev(src_e, st)
    if not isinstance(src, Seq):
        raise U("map over a non-sequence")
    if isinstance(fn, ast.Name) and fn.id == "str":
        if src.elem != "int":
            raise U("map(str, non-int list)")
        # every element must render as ONE character for the later "".join to be a digit string
        ex.prove(st, f"map-str-single-digits:{ex.ordinal('mapstr')}", specz3.seq_digits(src), e.lineno)
        st.assume(specz3.seq_digits(src))
        return ("mapped", src.retag("list", "char", 48))
    if isinstance(fn, ast.Name) and fn.id == "int":
        if src.elem != "char":
            raise U("map(int, non-str)")
        ex.may_raise(st, "ValueError", z3.Not(specz3.seq_digits(src)), f"int-of-each-char:{ex.ordinal('intc')}", e.lineno)
        return ("mapped", src.retag("list", "int", -48))
    if isinstance(fn, ast.Attribute) and fn.attr == "index":
        table = ex.ev(fn.value, st)
        txt = getattr(table, "const", None)
        if txt is None or src.elem != "char":
            raise U("map(x.index, ..) on a non-constant table")
        return ("mapped", map_index(ex, st, txt, src, e.lineno))
    raise U("map with this function")


def map_index(ex, st, txt, src, line):
    """list(map("ACGT".index, s)): ValueError when a character is foreign; otherwise the codes of s (a view of codes_of(array))."""
    if txt != "ACGT":
        raise U("index map over a table other than ACGT")
    foreign = z3.Not(src.forall(lambda v: z3.Or(*[v == ord(ch) for ch in txt])))
    ex.may_raise(st, "ValueError", foreign, f"index-of-each-char:{ex.ordinal('idxc')}", line)
    return speclang.codes_seq(ex, src)


def b_divmod(ex, e, st):
    a0 = ex.ev(e.args[0], st)
    if isinstance(a0, FloatV) and ex.c.get("opaque_floats"):
        b0 = toint(ex.ev(e.args[1], st))
        ex.may_raise(st, "ZeroDivisionError", b0 == 0, f"divmod:{ex.ordinal('div')}", e.lineno)
        return Tup([FloatV(fresh("fdiv", z3.RealSort())), FloatV(fresh("fmod", z3.RealSort()))])
    a, b = toint(a0), toint(ex.ev(e.args[1], st))
    ex.may_raise(st, "ZeroDivisionError", b == 0, f"divmod:{ex.ordinal('div')}", e.lineno)
    ex.prove(st, f"divisor-positive:{ex.ordinal('div')}", b > 0, e.lineno)
    st.assume(b > 0)
    return Tup([a / b, a % b])


def b_type(ex, e, st):
    v = ex.ev(e.args[0], st)
    if isinstance(v, Seq) and v.kind == "str":
        return ("type", "str")
    if z3.is_expr(v) and z3.is_int(v):
        return ("type", "int")
    if z3.is_expr(v) and z3.is_bool(v):
        return ("type", "bool")
    if isinstance(v, Seq) and v.kind == "list":
        return ("type", "list")
    raise U("type() of this value")


def b_print(ex, e, st):
    return NONE


def b_monitor_ctor(ex, e, st):
    return Obj("Monitor", {})


def monitor_call(ex, e, st):
    """Monitor.__call__(current_state, total_state): contract (verified on the real method separately):
    requires current_state == 0 or total_state != 0; writes no program state; returns None."""
    args = kwargs_of(ex, e, st, ["current_state", "total_state", "extra"])
    cur, tot = toint(args["current_state"]), toint(args["total_state"])
    ex.prove(st, f"call:Monitor:requires:nonzero-total:{ex.ordinal('mon')}", z3.Or(cur == 0, tot != 0), e.lineno)
    return NONE


def b_abs(ex, e, st):
    v = toint(ex.ev(e.args[0], st))
    return z3.If(v >= 0, v, -v)


def b_bool(ex, e, st):
    return tobool(ex.ev(e.args[0], st))


class PySet:
    """a Python set of strings with at most ONE element (the clean-strand path of repair_dna): enough to say what `sorted(list(s))` is."""

    def __init__(self, items):
        self.items = list(items)


class Coll:
    """a collection the contract declares with an ELEMENT INVARIANT (contract key collections = {name: spec text over `candidate`}): every `.add(x)`
    carries the obligation invariant[candidate := x]; nothing else about its content is tracked.  Values derived from it (list(c), sorted(list(c)))
    keep the invariant: list / sorted return the same elements (trusted library contract), sorted(list(set)) is strictly increasing."""

    def __init__(self, name, form="set"):
        self.name, self.form = name, form


def coll_invariant(ex, st, name, x):
    from pyvc.engine import tobool
    txt = ex.c.get("collections", {}).get(name)
    if txt is None:
        raise U(f"collection {name} has no declared element invariant")
    t = st.clone()
    t.env["candidate"] = x
    ex.quiet += 1
    try:
        g = tobool(ex.ev(speclang.parse(txt), t))
    finally:
        ex.quiet -= 1
    return g


def b_set(ex, e, st):
    if e.args or e.keywords:
        raise U("set() of an iterable")
    return PySet([])


def b_zip(ex, e, st):
    vals = [ex.ev(a_, st) for a_ in e.args]
    if not all(isinstance(v, Tup) for v in vals) or e.keywords:
        raise U("zip of non-lists")
    n = min(len(v.items) for v in vals)
    return Tup([Tup([v.items[j] for v in vals]) for j in range(n)])


def b_filter(ex, e, st):
    """filter(lambda n: n != x, <list of at most 4 single characters>): the characters different from x, in order (exact closed form)."""
    if len(e.args) != 2 or e.keywords or not isinstance(e.args[0], ast.Lambda):
        raise U("filter() with these arguments")
    lam = e.args[0]
    body = lam.body
    if not (len(lam.args.args) == 1 and isinstance(body, ast.Compare) and len(body.ops) == 1 and isinstance(body.ops[0], ast.NotEq)
            and isinstance(body.left, ast.Name) and body.left.id == lam.args.args[0].arg):
        raise U("filter() with a predicate other than `lambda n: n != x`")
    x = ex.ev(body.comparators[0], st)
    src = ex.ev(e.args[1], st)
    m = getattr(src, "maxlen", None) if isinstance(src, Seq) else None
    if lit(src.n) is not None:
        m = lit(src.n)
    if not (isinstance(src, Seq) and src.elem == "char" and m is not None and m <= 4 and isinstance(x, Seq) and lit(x.n) == 1):
        raise U("filter() over this sequence")
    c = x.at(0)
    keep = [z3.And(j < src.n, src.at(j) != c) for j in range(m)]
    before = [z3.Sum([z3.If(keep[i], 1, 0) for i in range(q)]) if q else iv(0) for q in range(m)]
    vals = []
    for p_ in range(m):
        v = iv(0)
        for q in range(m - 1, -1, -1):
            v = z3.If(z3.And(keep[q], before[q] == p_), src.at(q), v)
        vals.append(v)
    out = const_list(vals)
    out.elem = "char"
    out.n = z3.Sum([z3.If(k_, 1, 0) for k_ in keep]) if m else iv(0)
    out.maxlen = m
    return out


def b_sorted(ex, e, st):
    v = ex.ev(e.args[0], st)
    if isinstance(v, Coll) and v.form == "list" and not e.keywords and len(e.args) == 1:
        ex.trusted_used.add("sorted(list(a set of strings)): the same strings, strictly increasing (hence duplicate-free)")
        return Coll(v.name, "sorted")
    if isinstance(v, Coll) and v.form == "plainlist" and not e.keywords and len(e.args) == 1:
        return Coll(v.name, "sorted-with-possible-duplicates")
    if isinstance(v, Tup) and len(v.items) <= 1 and not e.keywords and len(e.args) == 1:
        return Tup(list(v.items))
    raise U("sorted() of this value")


BUILTINS = {"set": b_set, "zip": b_zip, "sorted": b_sorted, "filter": b_filter, "len": b_len, "int": b_int, "str": b_str, "list": b_list, "map": b_map, "divmod": b_divmod, "type": b_type,
            "print": b_print, "Monitor": b_monitor_ctor, "abs": b_abs, "bool": b_bool}


# ---------------------------------------------------------------------------------------------- methods
def method(ex, e, st):
    f = e.func
    attr = f.attr
    if isinstance(f.value, ast.Name) and f.value.id == "datetime" and "datetime" not in st.env and attr == "now" and not e.args:
        ex.trusted_used.add("datetime.now() returns a datetime; the difference of two datetimes has a finite total_seconds()")
        return Obj("datetime", {"__id__": fresh("now")})
    if isinstance(f.value, ast.Name) and f.value.id == "random" and "random" not in st.env:
        from pyvc import library
        return library.random_method(ex, e, st, attr)
    if attr == "join":
        sep = ex.ev(f.value, st)
        if getattr(sep, "const", None) != "":
            raise U("join with a non-empty separator")
        v = ex.ev(e.args[0], st)
        if isinstance(v, tuple) and v[0] == "mapped":
            v = v[1]
        if isinstance(v, Seq) and v.elem == "char":
            return v.retag("str", "char")
        if isinstance(v, Seq) and lit(v.n) == 0:
            return const_str("")
        raise U("join of a non-character list")
    base = ex.ev(f.value, st)
    from pyvc.sym import DictV as _DictV
    if isinstance(base, _DictV) and attr in ("items", "keys", "values"):
        return ("dictview", attr, base)
    if isinstance(base, Obj) and base.cls == "timedelta" and attr == "total_seconds" and not e.args:
        return FloatV(fresh("seconds", z3.RealSort()))
    if isinstance(base, Obj):
        from pyvc import library
        return library.obj_method(ex, e, st, base, attr)
    if attr == "zfill" and isinstance(base, Seq):
        w = toint(ex.ev(e.args[0], st))
        pad = z3.simplify(z3.If(w - base.n > 0, w - base.n, 0))
        out = Seq("str", "char", fresh("zf", A), add(base.n, pad))
        i = fresh("q")
        st.assume(z3.ForAll([i], z3.Implies(z3.And(0 <= i, i < pad), out.arr[i] == 48), patterns=[out.arr[i]]))
        i2 = fresh("q")
        st.assume(z3.ForAll([i2], z3.Implies(z3.And(pad <= i2, i2 < pad + base.n), out.arr[i2] == base.at(i2 - pad)), patterns=[out.arr[i2]]))
        return out
    if attr == "index" and isinstance(base, Seq):
        x = ex.ev(e.args[0], st)
        txt = getattr(base, "const", None)
        if txt is not None and isinstance(x, Seq):
            ex.prove(st, f"index-arg-single-char:{ex.ordinal('idxarg')}", x.n == 1, e.lineno) if lit(x.n) != 1 else None
            c = x.at(0)
            ex.may_raise(st, "ValueError", z3.Not(z3.Or(*[c == ord(ch) for ch in txt])), f"str-index-miss:{ex.ordinal('sidx')}", e.lineno)
            look = iv(len(txt) - 1)
            for j in range(len(txt) - 2, -1, -1):
                look = z3.If(c == ord(txt[j]), iv(j), look)
            return look
        n = lit(base.n)
        if n is None and getattr(base, "maxlen", None) is not None:
            n = base.maxlen
            inr = [j < base.n for j in range(n)]
        elif n is not None:
            inr = [z3.BoolVal(True)] * n
        if n is not None and n <= 8:
            v = x.at(0) if isinstance(x, Seq) else toint(x)
            ex.may_raise(st, "ValueError", z3.Not(z3.Or(*[z3.And(inr[j], base.at(j) == v) for j in range(n)])) if n else z3.BoolVal(True),
                         f"list-index-miss:{ex.ordinal('lidx')}", e.lineno)
            look = iv(n - 1)
            for j in range(n - 2, -1, -1):
                look = z3.If(z3.And(inr[j], base.at(j) == v), iv(j), look)
            return look
        raise U("index on a symbolic-length sequence")
    if attr == "count" and isinstance(base, Seq):
        x = ex.ev(e.args[0], st)
        if not (isinstance(x, Seq) and lit(x.n) == 1):
            raise U("count of a non-single character")
        return specz3.cnt(base.arr, iv(base.delta), base.start, add(base.start, base.n), x.at(0))
    if attr in ("replace", "upper") and isinstance(base, Seq) and base.kind == "str":
        from pyvc import library
        return library.str_map(ex, e, st, base, attr)
    if attr == "tolist" and isinstance(base, Seq):
        out = Seq("list", base.elem, base.arr, base.n, base.start, base.delta)
        if getattr(base, "maxlen", None) is not None:
            out.maxlen = base.maxlen
        if getattr(base, "where_of", None) is not None:
            out.where_of = base.where_of
        return out
    from pyvc.sym import LazySeq, MatLazy
    if attr == "astype" and isinstance(base, (LazySeq, MatLazy, Mat)):
        from pyvc import library
        return library.astype(ex, e, st, base)
    if attr == "astype" and isinstance(base, Seq):
        from pyvc import library
        return library.astype(ex, e, st, base)
    raise U(f"method .{attr} on {base!r} (line {e.lineno})")


# ---------------------------------------------------------------------------------------------- repository calls = contracts
def call_contract(ex, e, st, name, c):
    fn = ex.registry.function_ast(c.get("function", c["name"]))
    pnames = [a.arg for a in fn.args.args]
    args = kwargs_of(ex, e, st, pnames)
    defaults = dict(zip(pnames[len(pnames) - len(fn.args.defaults):], fn.args.defaults))
    for p in pnames:
        if p not in args:
            if p not in defaults:
                raise U(f"call of {name}: missing argument {p}")
            args[p] = ex.ev(defaults[p], st)
    if c.get("dispatch"):
        d = c["dispatch"]
        if "params" in d:
            key = "|".join(static_key(args, p_) for p_ in d["params"])
            table = d["table"]
        else:
            key, table = static_key(args, d["param"]), d
        if key not in table:
            raise U(f"call of {name}: cannot select a contract variant statically (key {key})")
        c = ex.registry.contracts[table[key]]
        if d.get("fallback") and any(g not in st.env for g in c.get("ghost_params", {})):
            # the caller does not carry the ghost inputs of the precise variant: the weaker (assumed) contract is used at this site, and reported as such
            c = ex.registry.contracts[d["fallback"]]
    for g in c.get("ghost_params", {}):            # spec-only inputs: the caller supplies them under the same name
        if g not in st.env:
            raise U(f"call of {name}: the caller has no ghost value `{g}` to pass for the callee's ghost input")
        args[g] = st.env[g]
    return apply_contract(ex, st, name, c, args, e.lineno)


def apply_contract(ex, st, name, c, args, line):
    k = ex.ordinal("call:" + name)
    saved_old = ex.old
    ex.old = dict(args)
    try:
        t = st.clone()
        t.env = dict(args)
        t.env["__old__"] = args
        # the callee was verified for the values of its case-split parameters only
        for p, allowed in c.get("split", {}).items():
            a_ = args.get(p)
            if isinstance(a_, Seq) and getattr(a_, "const", None) is not None:
                if a_.const not in allowed:
                    raise U(f"call of {name}: {p}={a_.const!r} is outside the callee's verified cases")
            elif isinstance(a_, Seq) and all(isinstance(v_, str) and len(v_) == 1 for v_ in allowed):
                ex.prove(st, f"call{k}:{name}:verified-case:{p}", z3.And(a_.n == 1, z3.Or(*[a_.at(0) == ord(v_) for v_ in allowed])), line)
            elif z3.is_expr(a_) and all(isinstance(v_, int) and not isinstance(v_, bool) for v_ in allowed):
                ex.prove(st, f"call{k}:{name}:verified-case:{p}", z3.Or(*[toint(a_) == v_ for v_ in allowed]), line)
            elif z3.is_expr(a_) and z3.is_bool(a_):
                sv_ = z3.simplify(a_)
                if not ((z3.is_true(sv_) and True in allowed) or (z3.is_false(sv_) and False in allowed)):
                    raise U(f"call of {name}: {p} is outside the callee's verified cases")
        # the callee's parameter shapes are part of its precondition
        for p, shape in c.get("params", {}).items():
            shape_ok = shape_pred(ex, args.get(p), shape)
            if shape_ok is not None:
                ex.prove(st, f"call{k}:{name}:param-shape:{p}", shape_ok, line)
        for label, txt in list(c.get("requires", {}).items()) + list(c.get("stashed_requires", {}).items()):
            ex.quiet += 1
            g = tobool(ex.ev(speclang.parse(txt), t))
            ex.quiet -= 1
            ex.prove(st, f"call{k}:{name}:requires:{label}", g, line)
            if label not in c.get("stashed_requires", {}):
                st.assume(g)
        for exc, txt in c.get("raises", {}).items():
            if txt is None:
                raise U(f"callee {name} may raise {exc} without a stated condition")
            ex.quiet += 1
            cond = tobool(ex.ev(speclang.parse(txt), t))
            ex.quiet -= 1
            ex.may_raise(st, exc, cond, f"call{k}:{name}", line)
        from pyvc import shapes
        ret = c.get("returns", "none")
        if isinstance(ret, dict):          # result shape depends on a static property of an argument
            ret = ret[static_key(args, c["returns_key"])]
        # repository functions under contract here are pure: equal arguments denote the same result (and the same witnesses)
        memo = ex.__dict__.setdefault("_call_memo", {})
        mkey = (c["name"],) + tuple(arg_key(args.get(p_)) for p_ in sorted(args))
        hit = memo.get(mkey) if c.get("pure", True) else None
        if hit is not None:
            res, ghosts = hit
        else:
            res = shapes.fresh_of(ex, st, ret, f"{name}_res", scope=t)
            ghosts = {g: shapes.fresh_of(ex, st, shape, f"{name}_{g}", scope=t) for g, shape in c.get("ghost_returns", {}).items()}
            memo[mkey] = (res, ghosts)
        t.env["result"] = res
        t.pc = st.pc
        for g, val in ghosts.items():       # existential witnesses of the callee's postcondition
            t.env[g] = val
            st.env[f"{name}_{g}"] = val
            ex.ghost_names.add(f"{name}_{g}")
        for label, txt in c.get("ensures", {}).items():
            ex.quiet += 1
            try:
                g = tobool(ex.ev(speclang.parse(txt), t))
            finally:
                ex.quiet -= 1
            st.assume(g)
        ex.called = getattr(ex, "called", set())
        ex.called.add(c["name"])
        if c.get("assumed"):
            ex.trusted_used.add("ASSUMED contract (not verified; checked in the bounded tier only) of " + c["name"] + ": " + "; ".join(c.get("ensures", {}).values())[:200])
        return res
    finally:
        ex.old = saved_old


def apply_lemma(ex, e, st, L):
    """explicit instantiation of a PROVED lemma (ghost code only): its requires become obligations, its ensures assumptions."""
    names = list(L["params"])
    if len(e.args) != len(names):
        raise U(f"lemma {L['name']} takes {len(names)} arguments")
    ex.quiet += 1
    try:
        vals = [ex.ev(a, st.clone()) for a in e.args]
    finally:
        ex.quiet -= 1
    k = ex.ordinal("lemma:" + L["name"])
    t = st.clone()
    t.env = dict(zip(names, vals))
    for p_, allowed in L.get("split", {}).items():        # the lemma was proved for these values of p_ only
        arg = toint(t.env[p_])
        if lit(arg) is None or lit(arg) not in allowed:
            ex.prove(st, f"lemma{k}:{L['name']}:proved-instance:{p_}", z3.Or(*[arg == v for v in allowed]), e.lineno)
    for label, txt in L.get("requires", {}).items():
        ex.quiet += 1
        g = tobool(ex.ev(speclang.parse(txt), t.clone()))
        ex.quiet -= 1
        ex.prove(st, f"lemma{k}:{L['name']}:requires:{label}", g, e.lineno)
        st.assume(g)
    for label, txt in L.get("ensures", {}).items():
        ex.quiet += 1
        g = tobool(ex.ev(speclang.parse(txt), t.clone()))
        ex.quiet -= 1
        st.assume(g)
    ex.lemmas_used = getattr(ex, "lemmas_used", set())
    ex.lemmas_used.add(L["name"])
    return NONE


def arg_key(v):
    if v is None:
        return "-"
    if isinstance(v, Seq):
        return ("seq", v.kind, v.elem, v.arr.sexpr(), v.start.sexpr(), v.n.sexpr(), str(v.delta))
    if isinstance(v, Mat):
        return ("mat", v.arr2.sexpr())
    if isinstance(v, Tup):
        return tuple(arg_key(x) for x in v.items)
    if z3.is_expr(v):
        return v.sexpr()
    if isinstance(v, Obj):
        return ("obj", id(v))
    return repr(v)


def static_key(args, key):
    v = args[key]
    if isinstance(v, Seq) and v.kind == "str":
        return "str"
    if z3.is_expr(v) and z3.is_bool(v):
        s = z3.simplify(v)
        return "true" if z3.is_true(s) else ("false" if z3.is_false(s) else "symbolic")
    if z3.is_expr(v) and z3.is_int(v):
        return "zero" if lit(v) == 0 else "int"
    return type(v).__name__


def shape_pred(ex, v, shape):
    """static part is checked here (kind of value); returns a z3 goal for the dynamic part or None."""
    if v is None:
        return None
    if shape in ("str", "digits", "dna", "char", "digit"):
        if not (isinstance(v, Seq) and v.elem == "char"):
            raise U(f"argument of shape {shape} is {v!r}")
        g = []
        if shape in ("char", "digit"):
            g.append(v.n == 1)
        if shape in ("digit", "digits"):
            g.append(specz3.seq_digits(v))
        if shape == "dna":
            g.append(v.forall(lambda x: z3.Or(x == 65, x == 67, x == 71, x == 84)))
        return z3.And(*g) if g else None
    if shape in ("int", "nat"):
        if not (z3.is_expr(v) and (z3.is_int(v) or z3.is_bool(v))):
            raise U(f"argument of shape {shape} is {v!r}")
        return toint(v) >= 0 if shape == "nat" else None
    if shape in ("bits", "nd_bits"):
        if not isinstance(v, Seq):
            raise U(f"argument of shape {shape} is {v!r}")
        return v.forall(lambda x: z3.Or(x == 0, x == 1))
    return None
