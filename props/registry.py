"""Per-property registry: which contracts (proof tier) and which bounded drivers decide each property.
`proof`: list of pyvc targets (contract names in contracts/*.py, client harnesses, lemmas).  The lemma closure (every lemma a listed unit calls, transitively) is
added mechanically at the end of this file, so that each property's run verifies every lemma it relies on.
"""

PROPS = {
    "C01": dict(title="Encode then decode returns the original message", level="proof", bounded=["C01"], design="8/C01",
                proof=["harness.c01_roundtrip_fast", "harness.c01_roundtrip_fast_table", "harness.c01_roundtrip_fast_vt", "harness.c01_roundtrip_fast_table_vt", "dsw.spiderweb.encode#fast", "dsw.spiderweb.encode#fast-table", "dsw.spiderweb.encode#fast-vt", "dsw.spiderweb.encode#fast-table-vt", "dsw.spiderweb.decode#fast", "dsw.spiderweb.decode#fast-table", "dsw.spiderweb.decode#fast-vt", "dsw.spiderweb.decode#fast-table-vt", "harness.c01_roundtrip_normal", "harness.c01_roundtrip_normal_table", "harness.c01_roundtrip_normal_vt", "harness.c01_roundtrip_normal_table_vt", "dsw.spiderweb.encode#normal", "dsw.spiderweb.encode#normal-table", "dsw.spiderweb.encode#normal-vt", "dsw.spiderweb.encode#normal-table-vt", "dsw.spiderweb.decode#normal", "dsw.spiderweb.decode#normal-table", "dsw.spiderweb.decode#normal-vt", "dsw.spiderweb.decode#normal-table-vt", "dsw.operation.bit_to_number#str", "dsw.operation.number_to_bit#str", "dsw.operation.calculus_division", "dsw.operation.calculus_multiplication", "dsw.operation.calculus_addition", "dsw.spiderweb.set_vt", "dsw.operation.number_to_dna#int", "lemma.pv_store_frame", "lemma.pv_positive", "lemma.pv_bound", "lemma.pv_inj", "lemma.pv_ext", "lemma.pv_zero", "lemma.pv_leading_zeros", "lemma.ipow_mono", "lemma.wt_store_frame", "lemma.lv_store_frame", "lemma.wt_peel", "lemma.hv_append", "lemma.hv_lv_dual", "lemma.walk_dead", "lemma.digit_bijection", "lemma.digit_bijection_table", "lemma.ssum_zero_iff"],
                explanation="BOTH MODES PROVED (eight client harnesses: {normal, fast} x {no table, table} x {no check, check of any length >= 1}; fast mode "
                            "under 'no out-degree 3'; odd-length messages included: a missing last bit at a 4-way vertex is read as 0 and not written "
                            "back). NORMAL MODE: four client harnesses (no table / table x no check / check of any length >= 1) "
                            "s = encode(m); out = decode(s, len(m)); assert out == m, verified against the contracts of the real encode and decode, "
                            "for every bit array, every well-formed coding graph of every order (reachable vertices have an arc and reach a branching "
                            "vertex: ghost witness R, rank), every start vertex and every permutation table; the argument: the strand is a walk, "
                            "decode visits the same vertices, reads back each digit (C18 bijection lemma), fold/Horner duality, fixed-width "
                            "injectivity.  The closure (encode x4, decode x4, bit_to_number, number_to_bit, calculus_*, set_vt, number_to_dna) is verified "
                            "against its own contracts.  FAST MODE: the strand is a walk whose bit cursor equals the recursive spec floc, decode "
                            "visits the same vertices with the same cursor, every written cell equals the message bit (bijection lemma), the cursor ends "
                            "at or beyond the message length, untouched cells do not exist.",
                level_override="proof",
                claim="Deductive for both modes: all messages incl. empty / all-zero / leading zeros / odd length, all well-formed graphs of every order, "
                      "all start vertices, all permutation tables, checks of any length >= 1.",
                note="Trusted: numpy where/argsort/array/zeros/sum/indexing contracts (DESIGN 3); pyvc encoding (DESIGN 2).",
                technique="contracts of encode/decode against the integer reference coder + bounded run-time contract checking"),
    "C02": dict(title="Every emitted strand obeys the biochemical constraints", level="other", bounded=["C02"], design="8/C02",
                proof=["harness.c02_chain", "harness.c02_chain_table", "harness.c02_chain_fast", "harness.c02_chain_fast_table",
                       "dsw.spiderweb.find_vertices", "dsw.spiderweb.connect_coding_graph#t234",
                       "dsw.spiderweb.encode#normal", "dsw.spiderweb.encode#normal-table", "dsw.spiderweb.encode#fast", "dsw.spiderweb.encode#fast-table", "dsw.operation.number_to_dna#int", "dsw.graphized.obtain_latters",
                       "dsw.biofilter.LocalBioFilter.__init__#norun-none", "dsw.biofilter.LocalBioFilter.__init__#norun-0", "dsw.biofilter.LocalBioFilter.__init__#norun-1", "dsw.biofilter.LocalBioFilter.__init__#norun-2", "dsw.biofilter.LocalBioFilter.__init__#norun-3", "dsw.biofilter.LocalBioFilter.__init__#run-none", "dsw.biofilter.LocalBioFilter.__init__#run-0", "dsw.biofilter.LocalBioFilter.__init__#run-1", "dsw.biofilter.LocalBioFilter.__init__#run-2", "dsw.biofilter.LocalBioFilter.__init__#run-3",
                       "lemma.window_shift", "lemma.pv_split", "lemma.pv_bound", "lemma.mod_small", "lemma.ipow_mono", "lemma.pv_ext", "lemma.pv_store_frame"],
                explanation="PROVED as a composition (client harness over contracts only): for an ARBITRARY user-defined window predicate f (uninterpreted "
                            "verdict), every observed length k, thresholds 2..4, every message, every retained start vertex, with and without a shuffle "
                            "table, in normal mode and - on the generated graphs without an out-degree-3 vertex, where it is defined - in fast mode: mask = find_vertices(k, f); (desc, acc) = connect_coding_graph(k, mask, t); s = encode(m, acc, start): "
                            "every window w of kmer(start) + s - including those overlapping the virtual start k-mer - has base-4 value = the vertex "
                            "reached after w steps (window-shift lemma = C13), that vertex is retained, retained => masked => accepted by f.  The "
                            "constructor clause is proved for LocalBioFilter.__init__ (raises ValueError exactly when run > k or a motif is longer than "
                            "k; every accepted configuration is window-decidable) EXCEPT the recorded known finding max_homopolymer_runs == "
                            "observed_length, which is excluded by an explicit precondition of the contract.  The whole-sequence sentence for the built-in filter: "
                            "by the chain every window of kmer(start) + strand is accepted, and by the window lemma proved under C12 (a sequence at least one "
                            "window long all of whose windows are accepted by a window-decidable configuration is accepted) the prefixed strand - and the strand "
                            "alone when it is at least one window long - passes the whole-sequence check; the two results are composed by hand (the chain is "
                            "generic in the filter, the lemma is about LocalBioFilter's predicate), the bounded tier checks the composition.  BOUNDED: "
                            "threshold 1, and the whole-sequence check of a strand shorter than one window.",
                demoted=["threshold 1 - bounded B2 (C03)",
                         "whole-sequence check of LocalBioFilter: composition of the chain with the C12 window lemma is not mechanised; strands shorter than one "
                         "window - bounded B2"],
                claim="Mixed: chain deductive for arbitrary filters / k / t in 2..4 / messages / tables (both modes); constructor clause deductive modulo "
                      "one known finding; the rest bounded.",
                note="Trusted: numpy contracts of the closure; the verdict of a user filter is a function of the k-mer only.",
                technique="chain of contracts (mask <=> filter, arcs inside mask, strand is a walk, k-mer shift lemma) + bounded chain driver"),
    "C03": dict(title="The coding graph is the largest closed subgraph, or a ValueError", level="other", bounded=["C03"], design="8/C03",
                proof=["dsw.spiderweb.connect_coding_graph#t234", "harness.c03_smaller_mask_smaller_graph", "dsw.graphized.remove_useless", "dsw.graphized.latter_map_to_accessor#threshold",
                       "dsw.graphized.obtain_latters", "lemma.ssum_zero_iff",
                       "lemma.ssum_mono_eq", "lemma.ipow_mono"],
                explanation="PROVED for thresholds 2, 3, 4 on the real connect_coding_graph (whole function): with an ARBITRARY closed subset S of the "
                            "mask as a universally quantified ghost input, the returned vertex set is inside the mask, closed (every retained vertex "
                            "keeps >= t retained successors), contains S (hence is the greatest closed subset), is non-empty, the accessor is exactly "
                            "its induced graph, the returned description marks exactly the vertices with arcs, ValueError is raised only when every "
                            "closed subset is empty, the trimming loop terminates (variant = number of marked vertices) and the mask parameter is "
                            "never stored into.  'A smaller mask never yields a larger graph' is a client lemma over that contract (harness.c03_smaller_mask_smaller_graph: "
                            "the graph of the smaller mask is a closed subset of the larger mask, so the greatest one contains it), thresholds 2..4.  "
                            "LATTER-MAP TRIMMING PROVED on the real remove_useless (all four loops, every threshold, every map whose lists have at most "
                            "four entries): if the call returns, the result is a sub-map of the input (keys and list entries come from it), it is CLOSED "
                            "(every key lists >= t vertices and every listed vertex is a key - so no arc to a dead end survives), and it CONTAINS EVERY "
                            "vertex set that is closed in the input (arbitrary closed set S as a universally quantified ghost input, entries counted by "
                            "list position as the code counts them): it is the largest closed sub-map, the same characterisation as generation's.  The two "
                            "classification lists are abstracted to their element sets (append / membership only), the position of each key in the "
                            "insertion order is an explicit ghost function (requires: every key is listed once - true of every Python dict).  BOUNDED "
                            "(never counted as proved): the threshold-1 clean-up phase (networkx find_cycle, try/except: outside the engine); termination "
                            "of remove_useless's `while True` (partial correctness only).  COMPOSITION PROVED on the real latter_map_to_accessor with a threshold "
                            "(trimming used by its contract, then the conversion loop): for every latter map of shift successors the accessor written is "
                            "exactly the accessor of a map `trimmed` (existential witness) that is a sub-map of the input, closed for the threshold and "
                            "contains every vertex set closed in the input - the largest closed sub-graph, which is how generation's result is characterised "
                            "too (connect_coding_graph#t234).  What is left to a one-line meta-argument (two greatest elements of the same order are equal) and "
                            "to the bounded driver (every mask): that the two accessors are therefore identical.",
                demoted=["threshold 1: information-free-cycle removal phase (networkx) - bounded B2, all 65,536 order-2 masks in the thorough tier",
                         "latter-map trimming: termination of remove_useless; the final identity latter_map_to_accessor(threshold=t) == generation - bounded B2 "
                         "(both sides are proved to be the largest closed sub-graph; their equality is a meta-argument, not a discharged obligation)"],
                claim="Mixed: thresholds 2..4 deductive for all k >= 1 and all masks (no bound) incl. monotonicity in the mask; latter-map trimming deductive as a largest-closed-sub-map contract on remove_useless (partial correctness); threshold 1 and the end-to-end trimming agreement bounded.",
                note="Trusted: numpy zeros/ones/where/sum/fancy-indexing contracts (DESIGN 3). Bounded part: exhaustive order-2 masks only in the thorough tier.",
                technique="greatest-fixed-point loop contracts on connect_coding_graph and remove_useless (arbitrary closed set as ghost input) + exhaustive order-2 run-time contract checking"),
    "C04": dict(title="Encoding is total, dead-end free and tight on generated graphs", level="other", bounded=["C04"], design="8/C04",
                proof=["dsw.spiderweb.encode#fast", "dsw.spiderweb.encode#fast-table", "dsw.spiderweb.encode#fast-vt", "dsw.spiderweb.encode#fast-table-vt", "dsw.spiderweb.encode#normal", "dsw.spiderweb.encode#normal-table", "dsw.spiderweb.encode#normal-vt", "dsw.spiderweb.encode#normal-table-vt", "dsw.operation.bit_to_number#str", "dsw.operation.number_to_bit#str", "dsw.operation.calculus_division", "dsw.operation.calculus_multiplication", "dsw.operation.calculus_addition", "lemma.pv_positive", "lemma.pv_bound", "lemma.pv_store_frame",
                       "harness.c04_tight_normal", "harness.c04_tight_normal_table", "harness.c04_step_bound_normal", "harness.c04_step_bound_normal_table",
                       "harness.c04_step_bound_fast", "harness.c04_step_bound_fast_table",
                       "lemma.mul_mono", "lemma.mul_step", "lemma.ipow_4_2", "lemma.ipow_mono"],
                explanation="PROVED on the real encode (normal mode) under the well-formedness witness (R closed under arcs, every vertex of R has an arc, a "
                            "rank that decreases along one-arc steps): the loop terminates (lexicographic variant (quotient value, rank of the vertex): a "
                            "branching step divides a positive quotient by d >= 2, a one-arc step lowers the rank), the 'no out-degree' ValueError is "
                            "unreachable, the strand is a walk of the graph.  For thresholds 2..4 generation yields such graphs with rank = 0 (C03 proof: "
                            "closed set).  FAST MODE PROVED: variant (bits left, rank), carried bits total L or L+1 (loc[n] in {L, L+1}), no out-degree error.  "
                            "NORMAL-MODE TIGHTNESS PROVED as client lemmas over encode's postcondition (harness.c04_tight_normal[_table]): the last "
                            "step is taken at a vertex of out-degree >= 2 (information-carrying), the product of the out-degrees met before the last step "
                            "is <= the message value (induction weight x quotient <= message value along the quotient chain), hence at most L nucleotides "
                            "when every reachable vertex has out-degree >= 2 and at most ceil(L/2) when all have 4; STEP BOUND PROVED "
                            "(harness.c04_step_bound_normal[_table]): with a rank witness below the vertex count nv, len(strand) <= L x nv "
                            "(potential t + rank <= (branching steps + 1) x nv - 1, and fewer branching steps than bits).  "
                            "The same bound is proved for fast mode (harness.c04_step_bound_fast[_table]: branching steps consume bits).  "
                            "BOUNDED: 'generation => well-formed' for threshold 1 (C03).",
                demoted=["threshold-1 generated graphs are well-formed - bounded B2 (C03)"],
                claim="Mixed: totality / dead-end freedom / walk clause deductive for both modes, fast-mode carried bits and normal-mode tightness, "
                      "step bound deductive; the link 'threshold-1 generation yields a well-formed graph' is bounded, so the level stays 'other'.",
                note="Trusted: as C05.",
                technique="variant and tightness invariant on encode + bounded run-time contract checking on generated graphs"),
    "C05": dict(title="The strand is the documented mixed-radix walk", level="proof", bounded=["C05"], design="8/C05",
                proof=["dsw.spiderweb.encode#fast", "dsw.spiderweb.encode#fast-table", "dsw.spiderweb.encode#fast-vt", "dsw.spiderweb.encode#fast-table-vt", "dsw.spiderweb.decode#fast", "dsw.spiderweb.decode#fast-table", "dsw.spiderweb.decode#fast-vt", "dsw.spiderweb.decode#fast-table-vt", "dsw.spiderweb.encode#normal", "dsw.spiderweb.encode#normal-table", "dsw.spiderweb.encode#normal-vt", "dsw.spiderweb.encode#normal-table-vt", "dsw.spiderweb.decode#normal", "dsw.spiderweb.decode#normal-table", "dsw.spiderweb.decode#normal-vt", "dsw.spiderweb.decode#normal-table-vt", "dsw.operation.bit_to_number#str", "dsw.operation.number_to_bit#str", "dsw.operation.calculus_division", "dsw.operation.calculus_multiplication", "dsw.operation.calculus_addition", "dsw.spiderweb.set_vt", "dsw.operation.number_to_dna#int", "lemma.pv_store_frame", "lemma.pv_positive", "lemma.pv_bound", "lemma.pv_inj", "lemma.pv_ext", "lemma.pv_zero", "lemma.pv_leading_zeros", "lemma.ipow_mono", "lemma.wt_store_frame", "lemma.lv_store_frame", "lemma.wt_peel", "lemma.hv_append", "lemma.hv_lv_dual", "lemma.walk_dead", "lemma.ssum_zero_iff"],
                explanation="NORMAL MODE PROVED on the real encode: there are witnesses gq (quotient chain, gq[0] = message value, gq[n] = 0, every "
                            "earlier gq > 0) and vtx (vertices) such that at every position the out-degree d of the current vertex decides: d > 1: the "
                            "emitted nucleotide is the live arc whose rank (A<C<G<T, or by table entry) is gq mod d and gq moves to gq div d; d = 1: the "
                            "only arc, gq unchanged - i.e. little-endian mixed radix, one-arc vertices contribute no digit; the spec is written with "
                            "rank/arc functions independent of argsort.  On the real decode: for every walk, the result is the big-endian width-L "
                            "rendering of the little-endian mixed-radix value of its digit sequence whenever that fits (fold/Horner duality lemma).  "
                            "FAST MODE PROVED on the real encode / decode: witnesses loc (bit cursor) and vtx with, at every position, out-degree 4: two "
                            "bits most significant first (a missing last bit reads 0), out-degree 2: one bit, out-degree 1: none, arc selected by rank; "
                            "decode writes exactly those cells.",
                claim="Deductive for both modes: all messages, graphs (out-degrees 1..4 mixed; fast mode without out-degree 3), start vertices and tables.",
                note="Trusted: numpy where/argsort/fancy-indexing contracts; encode is verified under the well-formedness precondition of C01/C04.",
                technique="postconditions of encode/decode equal to the spec coder + bounded differential contract checking"),
    "C06": dict(title="Decoding accepts exactly the walks", level="proof", bounded=["C06"], design="8/C06",
                proof=["dsw.spiderweb.decode#fast", "dsw.spiderweb.decode#fast-table", "dsw.spiderweb.decode#fast-vt", "dsw.spiderweb.decode#fast-table-vt", "dsw.spiderweb.decode#normal", "dsw.spiderweb.decode#normal-table", "dsw.spiderweb.decode#normal-vt", "dsw.spiderweb.decode#normal-table-vt", "dsw.operation.bit_to_number#str", "dsw.operation.number_to_bit#str", "dsw.operation.calculus_division", "dsw.operation.calculus_multiplication", "dsw.operation.calculus_addition", "dsw.spiderweb.set_vt", "dsw.operation.number_to_dna#int", "lemma.walk_dead", "lemma.pv_inj", "lemma.pv_ext", "lemma.hv_lv_dual", "lemma.hv_append", "lemma.wt_peel", "lemma.lv_store_frame", "lemma.wt_store_frame"],
                explanation="NORMAL MODE PROVED on the real decode, for strings over ANY alphabet, every coding graph (any arc subset), start vertex, table: "
                            "ValueError is raised exactly when the string is not a walk from the start vertex (recursive spec walkv) or a supplied "
                            "check (length >= 1) is not the documented check of the string (uniqueness of the check is proved at the raise site); every "
                            "other path returns an array of exactly bit_length entries; no other exception can escape (every subscript, .index, int() "
                            "and callee precondition is an obligation).  FAST MODE PROVED under the statement's preconditions (no out-degree 3; the walkable "
                            "prefix never needs a bit cell beyond the requested length, stated with the recursive cursor spec floc): same equivalence, "
                            "every cell write is in range.",
                claim="Deductive for both modes.",
                note="Trusted: numpy contracts as C05; set_vt / number_to_bit / calculus_* by their own (proved) contracts.",
                technique="exceptional postcondition of decode + bounded run-time contract checking"),
    "C07": dict(title="The path check is the documented VT function", level="proof", bounded=["C07"], design="8/C07",
                proof=["dsw.spiderweb.set_vt", "dsw.operation.number_to_dna#int", "harness.c07_substitution_changes_check",
                       "harness.c07_insertion_changes_check", "harness.c07_deletion_changes_check",
                       "lemma.ssum_split", "lemma.ssum_ext", "lemma.ssum_zero_iff", "lemma.ipow_mono", "lemma.pv_store_frame", "lemma.pv_zero",
                       "lemma.pv_leading_zeros", "lemma.pv_ext"],
                explanation="Contract on the real set_vt for strands of every length (incl. empty) and every check length n >= 1: n nucleotides, first "
                            "symbol = code sum mod 4, remaining n-1 symbols = base-4 digits of (sum of ascent positions) mod 4^(n-1), ValueError exactly "
                            "on a foreign character, no other exception (the dtype of numpy.array([]) is part of the symbolic value: an unfixed "
                            "float index is a failed obligation); sum(where(mask)[0]) is tied to the recursive ascent-sum spec by a ghost induction; "
                            "the consequence (every single substitution / C,G,T insertion / C,G,T deletion at every position changes the first check "
                            "symbol) is three client harnesses over the contract.",
                claim="Deductive: all obligations discharged, no bound on strand length, check length or edit position. The last half-sentence "
                      "('decoding with the original check rejects it') is decode's check-comparison branch, decided under C06.",
                note="Trusted: numpy array/where/sum/slicing contracts (DESIGN 3), codes_of definition.",
                technique="postcondition of set_vt against vt_spec + edit lemmas + bounded exhaustive short strands"),
    "C08": dict(title="Repair recovers the original strand for separated interior edits", level="other", bounded=["C08"], design="8/C08",
                proof=["dsw.spiderweb.repair_dna#detect", "dsw.graphized.path_matching#subst", "dsw.graphized.path_matching#indel", "dsw.operation.dna_to_number#int",
                       "lemma.walk_dead", "lemma.pv_bound", "lemma.ipow_mono"],
                explanation="PROVED (partial contract on the real repair_dna, ending with its scan loop): for EVERY A/C/G/T strand at least one window long, every "
                            "coding graph and start vertex, the scan loop's error counter leaves 0 exactly when the strand is not a walk of the graph from the "
                            "start vertex (invariant: counter 0 => the current vertex is the walk's; counter > 0 => the whole strand is not a walk, by the "
                            "dead-prefix lemma) - the detection sentence of the property, for any number of edits.  PROVED on the real path_matching (both settings of "
                            "indel handling; every chunk, graph, previous vertex and position inside the chunk): every fragment it returns is tagged with the "
                            "given position and is exactly one substitution (by a nucleotide different from the original), one insertion or one deletion "
                            "of the chunk at that position, and the part of the chunk after the edit is a walk from the previous vertex through the tried "
                            "arc (element invariant of the result list, three walk-loop invariants); every live arc of the previous vertex is tried and the accept / reject "
                            "decision of each try is exact (accepted <=> the rest of the chunk walks); it raises nothing.  BOUNDED ONLY: the end-to-end recovery claim "
                            "(the original walk is among the candidates when detected errors = edits, also with its check supplied; substitutions with indel "
                            "handling off): a whole-protocol argument across the scan loop, the look-back window and path_matching that this prover does not "
                            "carry (DESIGN 8/C08).",
                demoted=["recovery of the original walk (membership in the candidate list) - bounded B2",
                         "that the accepted tries and only they end up in the returned list (list bookkeeping across iterations) - by construction of the element "
                         "invariant only; bounded B2 (through repair_dna)",
                         "the reported statistic is 0 on the fall-back exit even when the scan loop detected errors - bounded B2 observes the returned value"],
                claim="Mixed: the detection clause (scan loop) and the soundness of every repair fragment (path_matching) are deductive; recovery is bounded (every single "
                      "edit per walk, seeded separated edit sets).",
                note="Trusted: numpy where / list-comprehension-over-indices contracts as C06; the three bookkeeping lists of the scan loop are length-only lists (their elements are not tracked).",
                technique="scan-loop invariant (detected <=> not a walk) + element invariant on path_matching's result + bounded run-time contract checking (every single edit per walk)"),
    "C09": dict(title="Repair leaves clean strands alone; candidates check-consistent", level="proof", bounded=["C09"], design="8/C09",
                proof=["dsw.spiderweb.repair_dna#clean", "dsw.spiderweb.repair_dna#clean-vt", "dsw.spiderweb.repair_dna#candidates",
                       "dsw.spiderweb.repair_dna#candidates-vt", "dsw.spiderweb.set_vt", "dsw.operation.number_to_dna#int", "dsw.operation.dna_to_number#int",
                       "lemma.walk_dead", "lemma.pv_inj", "lemma.pv_ext", "lemma.pv_bound", "lemma.ipow_mono", "lemma.pv_store_frame"],
                explanation="CLAUSE 1 PROVED on the WHOLE real repair_dna (contracts #clean / #clean-vt): for every coding graph, start vertex, indel switch, heap "
                            "limit and every strand at least one window long that is a walk from the start vertex (recursive spec walkv), the scan loop never "
                            "leaves its first branch (invariant: the current vertex is the walk's, one segment equal to the prefix read, no marker, zero "
                            "detected errors), the look-back and path-matching loops run zero times, the candidate product is the single empty combination, "
                            "and the call returns exactly [strand] - or [] when a supplied check (length >= 1) is not the documented check of the strand "
                            "(uniqueness of the check proved at the comparison) - with first statistic 0, on both exits (heap limit below 1 included); no "
                            "exception can escape.  CLAUSE 2 PROVED for ANY input (contracts #candidates / #candidates-vt, partial: execution starts at the "
                            "candidate product with the results of the earlier phases as arbitrary values, the three remaining loops run over arbitrary "
                            "collections): every `repaired_results.add(x)` carries the obligation 'no check, or check == set_vt(x, len(check))' (element "
                            "invariant of the set), the fall-back exit returns [strand] only under the same test, and every returned list is "
                            "sorted(list(set)) or a literal list of at most one element - hence sorted, duplicate-free and check-consistent.",
                claim="Deductive for both clauses. Clause 2 is proved under an abstraction that only forgets information (arbitrary earlier results).",
                note="Trusted: sorted(list(set of strings)) returns the same strings strictly increasing; itertools.product of no iterables yields one empty tuple; "
                     "heap_size is an integer (the default 1e3 is a float: comparisons only); numpy contracts as C05/C06.",
                technique="whole-function contract on the clean-strand path + element invariant on the candidate set (partial contract from the product phase) "
                          "+ bounded run-time contract checking"),
    "C10": dict(title="Repair always returns", level="other", bounded=["C10"], design="8/C10",
                proof=["dsw.spiderweb.repair_dna#scan", "dsw.operation.dna_to_number#int", "lemma.pv_bound", "lemma.ipow_mono"],
                explanation="PROVED (partial contract on the real repair_dna, ending with its scan loop): for every A/C/G/T strand at least one window long, "
                            "every coding graph and start vertex, the scan loop TERMINATES - the variant len(strand) - location decreases on every "
                            "feasible path through the body, including the path 'first nucleotide is not an arc of the start vertex' (D2) - and NO statement "
                            "of the loop raises: strand index, accessor row and column, index_queue store, the precondition of dna_to_number (the "
                            "resynchronisation vertex is < 4^k, also when the look-ahead slice is short or empty at the end of the strand), and the "
                            "bookkeeping statements - the three lists of strings / arrays are length-only lists (`list_counted`): `split_sequences[-1]` is "
                            "an IndexError obligation discharged by the invariant, the appended expressions are evaluated with their own obligations.  "
                            "Postcondition of the loop (what the later phases index by): one chunk and one look-back marker per detected error and one "
                            "more segment than errors.  "
                            "BOUNDED (never counted as proved): everything after the scan loop (look-back / path matching, candidate product, the shape "
                            "of the result), the polynomial look-up bound.",
                demoted=["loops 2..7 and result shape - bounded B2 (all ACGT strings of length k..6/8 on two graphs + seeded strands)"],
                claim="Mixed: termination and exception freedom of the whole scan loop deductive (termination is the obligation the pinned tree failed, D2); the phases after it bounded.",
                note="Trusted: numpy ones/where/indexing contracts.",
                technique="loop variant and exception-freedom obligations of the scan loop (length-only bookkeeping lists) + bounded exhaustive short strands"),
    "C11": dict(title="Vertex discovery and the valid graph mirror the filter", level="proof", bounded=["C11"], design="8/C11",
                proof=["dsw.spiderweb.find_vertices", "dsw.spiderweb.connect_valid_graph#mask", "dsw.spiderweb.connect_valid_graph#none",
                       "dsw.operation.number_to_dna#int", "dsw.graphized.obtain_latters",
                       "lemma.ssum_zero_iff", "lemma.ipow_mono", "lemma.pv_zero", "lemma.pv_leading_zeros", "lemma.pv_ext", "lemma.pv_store_frame"],
                explanation="find_vertices against an ABSTRACT filter (uninterpreted verdict on the i-th k-mer; only the documented interface "
                            "valid(self, dna_string) is known, and the call site must bind to it): mask[i] <=> accepts(i) for all i < 4^k, ValueError "
                            "exactly when nothing is accepted; connect_valid_graph: entry (u, j) is the j-th shift successor exactly when u and it "
                            "are both marked, else -1, ValueError exactly for an all-zero mask / None; the mask parameter is never stored into.",
                claim="Deductive: all obligations discharged for every filter (as an uninterpreted predicate), every k >= 1 and every 0/1 mask.",
                note="Trusted: numpy zeros/ones/sum/indexing contracts, the quotient sum/len compared with 0 read as the sign of the numerator; "
                     "a user filter's verdict is assumed to be a function of the k-mer only (no hidden state).",
                technique="postconditions with abstract filter predicate + bounded exhaustive order-2 masks"),
    "C12": dict(title="The local filter implements its window predicate", level="other", bounded=["C12"], design="8/C12",
                proof=["dsw.biofilter.LocalBioFilter.valid#norun-nogc-none-whole", "dsw.biofilter.LocalBioFilter.valid#norun-nogc-none-last", "dsw.biofilter.LocalBioFilter.valid#norun-nogc-0-whole", "dsw.biofilter.LocalBioFilter.valid#norun-nogc-0-last", "dsw.biofilter.LocalBioFilter.valid#norun-nogc-1-whole", "dsw.biofilter.LocalBioFilter.valid#norun-nogc-1-last", "dsw.biofilter.LocalBioFilter.valid#norun-nogc-2-whole", "dsw.biofilter.LocalBioFilter.valid#norun-nogc-2-last", "dsw.biofilter.LocalBioFilter.valid#norun-gc-none-whole", "dsw.biofilter.LocalBioFilter.valid#norun-gc-none-last", "dsw.biofilter.LocalBioFilter.valid#norun-gc-0-whole", "dsw.biofilter.LocalBioFilter.valid#norun-gc-0-last", "dsw.biofilter.LocalBioFilter.valid#norun-gc-1-whole", "dsw.biofilter.LocalBioFilter.valid#norun-gc-1-last", "dsw.biofilter.LocalBioFilter.valid#norun-gc-2-whole", "dsw.biofilter.LocalBioFilter.valid#norun-gc-2-last", "dsw.biofilter.LocalBioFilter.valid#run-nogc-none-whole", "dsw.biofilter.LocalBioFilter.valid#run-nogc-none-last", "dsw.biofilter.LocalBioFilter.valid#run-nogc-0-whole", "dsw.biofilter.LocalBioFilter.valid#run-nogc-0-last", "dsw.biofilter.LocalBioFilter.valid#run-nogc-1-whole", "dsw.biofilter.LocalBioFilter.valid#run-nogc-1-last", "dsw.biofilter.LocalBioFilter.valid#run-nogc-2-whole", "dsw.biofilter.LocalBioFilter.valid#run-nogc-2-last", "dsw.biofilter.LocalBioFilter.valid#run-gc-none-whole", "dsw.biofilter.LocalBioFilter.valid#run-gc-none-last", "dsw.biofilter.LocalBioFilter.valid#run-gc-0-whole", "dsw.biofilter.LocalBioFilter.valid#run-gc-0-last", "dsw.biofilter.LocalBioFilter.valid#run-gc-1-whole", "dsw.biofilter.LocalBioFilter.valid#run-gc-1-last", "dsw.biofilter.LocalBioFilter.valid#run-gc-2-whole", "dsw.biofilter.LocalBioFilter.valid#run-gc-2-last", "dsw.biofilter.LocalBioFilter.valid#norun-nogc-3-whole", "dsw.biofilter.LocalBioFilter.valid#norun-nogc-3-last", "dsw.biofilter.LocalBioFilter.valid#norun-gc-3-whole", "dsw.biofilter.LocalBioFilter.valid#norun-gc-3-last", "dsw.biofilter.LocalBioFilter.valid#run-nogc-3-whole", "dsw.biofilter.LocalBioFilter.valid#run-nogc-3-last", "dsw.biofilter.LocalBioFilter.valid#run-gc-3-whole", "dsw.biofilter.LocalBioFilter.valid#run-gc-3-last", "harness.c12_rc_code_is_reverse_complement"] +
                      ["harness.c12_%s_%s_%s_%s" % (d_, "run" if r_ else "norun", "gc" if g_ else "nogc", "none" if m_ is None else m_)
                       for r_ in (False, True) for g_ in (False, True) for m_ in (None, 0, 1, 2, 3) for d_ in ("window_of_valid", "valid_of_windows", "revcomp")],
                explanation="PROVED on the real LocalBioFilter.valid, for strings over ANY alphabet and every configuration shape (run limit present/absent x "
                            "GC range present/absent x motif list None / 0..3 motifs (each motif an arbitrary string) x whole-sequence / last-window): the "
                            "verdict equals filter_ok = all characters A/C/G/T, no nucleotide repeated run+1 times, neither a motif nor the reverse "
                            "complement the code computes occurs (substring test = predicate occ), every window of the observed length has G+C within "
                            "[lo*k, hi*k] (shorter string: G+C <= hi*k and A+T <= (1-lo)*k), with the float products as the opaque terms the code itself "
                            "computes; the last-window verdict is the whole-sequence verdict of s[-k:]; no exception can escape.  A harness proves that "
                            "the four replaces + reverse + upper compute the Watson-Crick reverse complement character by character.  WINDOW LEMMA PROVED over "
                            "that predicate (32 client harnesses, one per configuration shape and direction; substring occurrence by its definition "
                            "'some position matches', used through the explicit ghost steps occ_elim / occ_intro): every window of an accepted sequence "
                            "is accepted, and a sequence at least one window long all of whose windows are accepted by a window-decidable configuration "
                            "(run limit < k, motifs no longer than k) is accepted - so for such sequences the whole-sequence verdict is the conjunction of "
                            "the window verdicts.  REVERSE-COMPLEMENT INVARIANCE PROVED (16 client harnesses): for an A/C/G/T string s, its reverse complement t and a "
                            "configuration whose motifs are over A/C/G/T, filter_ok(s) implies filter_ok(t) (and, s being the reverse complement of t, "
                            "conversely): occurrences are mirrored (run of c <-> run of comp(c), motif <-> its computed reverse complement), G+C and A+T "
                            "counts of mirrored windows are equal (inductive lemmas cnt_split, cnt_revcomp).  OPEN KNOWN FINDING (excluded by the lemma's "
                            "precondition, reported by the bounded tier): with a lower-case motif the verdict is NOT reverse-complement invariant.  BOUNDED: "
                            "motif lists longer than three motifs (the contracts are per configuration shape).",
                demoted=["motif lists longer than 3 motifs - same loop body, bounded B2",
                         "reverse-complement invariance for motifs outside A/C/G/T - open known finding (lower-case letters), bounded B2 for the rest"],
                claim="Deductive for all three sentences of the statement on configurations with at most three motifs (reverse-complement invariance: motifs over "
                      "A/C/G/T); one open known finding; longer motif lists bounded - hence 'other'.",
                note="Trusted: str.replace/upper/[::-1]/count contracts (DESIGN 2), `m in s` = 'some position of s matches m' (the definition the window lemma uses); "
                     "machine floats not reasoned about (opaque products shared by code and spec).",
                technique="postcondition of LocalBioFilter.valid against the window predicate + bounded exhaustive short strings"),
    "C13": dict(title="Vertex indices are k-mers, arcs are shift-append", level="proof", bounded=["C13"], design="8/C13",
                proof=["dsw.graphized.obtain_latters", "dsw.graphized.obtain_formers", "dsw.graphized.get_complete_accessor",
                       "dsw.graphized.latter_map_to_accessor#any-order",
                       "dsw.operation.dna_to_number#int", "dsw.operation.number_to_dna#int",
                       "harness.c13_latter_is_shift_append", "harness.c13_former_is_shift_prepend", "harness.c13_successor_of_predecessor",
                       "harness.c13_predecessor_of_successor", "harness.c16_number_dna_back", "harness.c16_dna_roundtrip_int",
                       "lemma.pv_split", "lemma.mod_small", "lemma.pv_bound", "lemma.ipow_mono", "lemma.pv_store_frame", "lemma.pv_inj",
                       "lemma.pv_zero", "lemma.pv_leading_zeros", "lemma.pv_ext"],
                explanation="Contracts on the real obtain_latters / obtain_formers (successor j = (v mod 4^(k-1))*4 + j, predecessor f = v div 4 + "
                            "f*4^(k-1), all in range) and get_complete_accessor (column j of every row holds the j-th successor); the string-level "
                            "statement (drop first nucleotide + append / drop last + prepend, on k-mers of every length) and the predecessor/"
                            "successor duality are client harnesses over those contracts and the integer paths of dna_to_number / number_to_dna.  "
                            "latter_map_to_accessor on ANY caller-built latter map (keys in any insertion order, lists of shift successors in any order, "
                            "repetitions allowed): column j of row v holds the j-th shift successor exactly when v is a key listing it, -1 otherwise - "
                            "the column is decided by the successor's last nucleotide, never by its position in the list.",
                claim="Deductive: all obligations discharged for every k >= 1 and every vertex (symbolic 4^k), no bound. The clause 'every graph the "
                      "library builds or converts holds -1 or that successor' is the is_accessor postcondition of the builders, decided under C11/C03/C14.",
                note="Trusted: pyvc's encoding (DESIGN 2), numpy ones/indexing contracts for get_complete_accessor, codes_of definition; "
                     "z3's built-in div/mod axioms for a symbolic divisor 4^(k-1) (nonlinear).",
                technique="postconditions of obtain_latters/obtain_formers (modular arithmetic VCs) + k-mer shift lemmas + bounded exhaustive small k"),
    "C14": dict(title="The three graph representations are interchangeable", level="proof", bounded=["C14"], design="8/C14",
                proof=["dsw.graphized.obtain_vertices", "dsw.graphized.accessor_to_latter_map", "dsw.graphized.latter_map_to_accessor#plain",
                       "dsw.graphized.latter_map_to_accessor#any-order",
                       "harness.c14_roundtrip_latter_map", "dsw.graphized.accessor_to_adjacency_matrix", "dsw.graphized.adjacency_matrix_to_accessor",
                       "harness.c14_roundtrip_matrix", "dsw.graphized.obtain_leaf_vertices#accessor", "dsw.graphized.obtain_leaf_vertices#latter-map",
                       "harness.c14_leaf_queries_agree", "dsw.graphized.obtain_latters", "lemma.fm_ext", "lemma.ipow_mono"],
                explanation="PROVED for every arc subset (any is_accessor matrix, not only vertex-induced ones) of every order: accessor_to_latter_map returns a "
                            "dict whose keys are exactly the vertices with an arc, each mapped to the list of its live successors in A<C<G<T order, "
                            "inserted in ascending key order; latter_map_to_accessor (no threshold) of a map that describes an accessor acc0 (ghost) "
                            "returns exactly acc0 (whole-matrix postcondition: every row, so a conversion that corrupts an untouched row cannot "
                            "verify); hence accessor -> latter map -> accessor is the identity (client harness); obtain_vertices returns exactly the "
                            "vertices with arcs in ascending order.  PROVED: accessor_to_adjacency_matrix returns the N x N matrix with a 1 exactly at "
                            "the arcs (every row, every column) and raises MemoryError exactly when N >= 4^maximum_length; adjacency_matrix_to_accessor, "
                            "for ANY square matrix of order k <= 31, holds in column j the j-th shift successor when the matrix has a 1 there and -1 "
                            "otherwise, and raises ValueError exactly when some 1 of the matrix is not a de Bruijn shift; hence accessor -> matrix -> "
                            "accessor is the identity (client harness).  PROVED: obtain_leaf_vertices, from the accessor and from a latter map that describes it, returns "
                            "exactly the sequence lev(graph, v, d) - the end points of all d-step walks from v, breadth first, successors in A<C<G<T order "
                            "(recursive spec: one step = flat map of live successors) - for every depth, so both representations give the same leaves in the same "
                            "order (client harness), in particular the same multiset.",
                demoted=[],
                claim="Deductive for every clause: all conversions (latter map, adjacency matrix), both round trips, illegal-matrix rejection, the vertex listing and "
                      "the leaf queries from either representation, for every arc subset of every order (matrix conversions: k <= 31).",
                note="Trusted: numpy where / sum(axis=1) / astype / boolean-mask indexing / ones / min / max contracts, writes through a row view; dict semantics "
                     "(insertion order) as modelled; CPython's iteration order of a set of four consecutive small ints (conformance-checked); "
                     "int(log(4**k)/log(4)) == k for k <= 31 (conformance-checked).",
                technique="whole-view postconditions of the conversions + bounded exhaustive order-1 arc subsets"),
    "C15": dict(title="String big-number arithmetic equals integer arithmetic", level="proof", bounded=["C15"], design="8/C15",
                proof=["dsw.operation.calculus_addition", "dsw.operation.calculus_subtraction", "dsw.operation.calculus_multiplication",
                       "dsw.operation.calculus_division", "lemma.pv_store_frame", "lemma.pv_leading_zeros"],
                explanation="Contracts on the four real calculus_* functions: for canon(number) and every operand digit (case-split 0..9; division 1..9; "
                            "subtraction under dval(number) >= digit) the result is canonical and its value is the exact integer result; loop "
                            "invariants over prefix values, ghost carry arrays, left-to-right induction as ghost loops; exception freedom of every "
                            "int()/index/str() is part of the obligations.",
                claim="Deductive: every obligation generated from the current source of calculus_addition/subtraction/multiplication/division "
                      "is discharged by z3/cvc5 for digit strings of every length and all ten operand digits (no bound).",
                note="Trusted: pyvc's encoding of Python (DESIGN 2); lemmas pv_store_frame, pv_leading_zeros (proved by pyvc as ghost-loop lemmas, "
                     "see contracts/lemmas.py); bounded tier is an additional cross-reading, not part of the claim.",
                technique="loop invariants over prefix values on the real calculus_* functions, VCs discharged by z3"),
    "C16": dict(title="Bit / number / DNA conversions are exact inverses", level="proof", bounded=["C16"], design="8/C16",
                proof=["dsw.operation.bit_to_number#str", "dsw.operation.bit_to_number#int", "dsw.operation.number_to_bit#str",
                       "dsw.operation.number_to_bit#int", "dsw.operation.dna_to_number#str", "dsw.operation.dna_to_number#int",
                       "dsw.operation.number_to_dna#str", "dsw.operation.number_to_dna#int",
                       "dsw.operation.calculus_addition", "dsw.operation.calculus_multiplication", "dsw.operation.calculus_division",
                       "harness.c16_bits_roundtrip_str", "harness.c16_bits_roundtrip_int", "harness.c16_bits_paths_agree",
                       "harness.c16_number_bits_back", "harness.c16_bits_left_padding", "harness.c16_dna_roundtrip_str",
                       "harness.c16_dna_roundtrip_int", "harness.c16_dna_paths_agree", "harness.c16_number_dna_back",
                       "harness.c16_dna_left_padding",
                       "lemma.pv_store_frame", "lemma.pv_leading_zeros", "lemma.pv_ext", "lemma.pv_zero", "lemma.pv_positive",
                       "lemma.pv_bound", "lemma.ipow_mono", "lemma.pv_inj"],
                explanation="Contracts on the real bit_to_number / number_to_bit / dna_to_number / number_to_dna (string and integer paths as "
                            "separate contract variants selected by the static type of the argument): value of the result = val2 / val4 of the "
                            "input, fixed width, exception freedom, ValueError exactly on a foreign nucleotide; the property itself is ten client "
                            "harnesses (round trips on both paths, path agreement, conversion back, left padding) verified against those "
                            "contracts with proved lemmas (prefix-value extensionality, zero prefix, bound, injectivity of fixed-width rendering).",
                claim="Deductive: all obligations of the four conversion functions (8 contract variants), of the calculus_* callees, of the ten "
                      "property harnesses and of the eight lemmas are discharged - bit arrays / DNA strings / numbers of every length, no bound.",
                note="Trusted: pyvc's encoding of Python (DESIGN 2); codes_of point-wise definition (+ its store consequence). Input type "
                     "of bit arrays: list or 1-D int array of 0/1 (numpy int64 treated as mathematical integers).",
                technique="Horner-loop invariants + round-trip harness lemmas, VCs discharged by z3"),
    "C18": dict(title="Shuffle tables are reproducible per-vertex permutations", level="other", bounded=["C18"], design="8/C18",
                proof=["dsw.spiderweb.create_random_shuffles#seed", "dsw.spiderweb.create_random_shuffles#noseed", "lemma.digit_bijection",
                       "lemma.digit_bijection_table", "lemma.arc_bijection", "lemma.arc_bijection_table", "dsw.spiderweb.decode#normal-table",
                       "dsw.spiderweb.decode#fast-table", "dsw.spiderweb.encode#normal-table", "dsw.spiderweb.encode#fast-table",
                       "lemma.ipow_mono", "frame:dsw.spiderweb.create_random_shuffles"],
                explanation="PROVED: (a) for EVERY permutation row and EVERY live-arc pattern (symbolic rows, not an enumeration) the digit -> live-arc map is "
                            "a bijection (digit_of_arc(arc_of_digit(d)) = d, arc_of_digit(digit_of_arc(j)) = j, selected arc is live), with and without a table; "
                            "decode with a table (both modes) raises exactly on non-walks (the raise condition does not mention the table), so shuffling never changes "
                            "which strands are walks; the real encode with a table (both modes) emits, at every branching vertex, the live arc whose table entry "
                            "is digit-th smallest (arc_of_digit, the map the lemma shows bijective), its strand is a walk, and neither encode nor decode stores "
                            "into the caller's table (frame obligation at every store); (b) on the real create_random_shuffles: shape (4^k, 4), every row a permutation of 0..3 (view "
                            "semantics of card = shuffles[index]; random.shuffle permutes in place), and - with numpy's global generator modelled as a "
                            "deterministic state machine (seed fixes the state, each shuffle is a function of state and row) - row i is the (i+1)-th "
                            "shuffle after seed(seed), i.e. the table is a function of (observed_length, seed) only; static frame: no argument "
                            "is written, only the global generator is touched.  ASSUMED: that numpy's generator is such a state machine.",
                demoted=["numpy's seeded generator is deterministic - assumed (external), spot-checked bounded B2"],
                claim="Deductive for the bijection lemma and the table contract, under the stated assumption about numpy.random.",
                note="Trusted: numpy zeros / column assignment / row views / random.seed / random.shuffle contracts.",
                technique="finite digit-map bijection lemma + permutation-row loop invariant; seeded determinism assumed, bounded spot check",
                assumptions=["numpy's seeded global generator is deterministic (external)"]),
    "C19": dict(title="Arc removal keeps both graph views in step", level="proof", bounded=["C19"], design="8/C19",
                proof=["dsw.spiderweb.remove_nasty_arc", "dsw.graphized.calculate_intersection_score#shape-sign", "dsw.graphized.obtain_vertices",
                       "frame:dsw.spiderweb.remove_nasty_arc", "frame:dsw.graphized.calculate_intersection_score", "frame:dsw.graphized.obtain_leaf_vertices",
                       "lemma.shift_append", "lemma.mod_small", "lemma.ipow_mono"],
                explanation="PROVED per call on the real remove_nasty_arc, for every order k <= 31, every accessor and every latter map describing the same graph "
                            "(the representation invariant lm_of(latter_map, accessor, k), which accessor_to_latter_map establishes - C14): if the call returns, "
                            "(1) exactly one accessor entry changed, it held an arc former -> latter (>= 0) and now holds -1, and that arc is the one reported; "
                            "(2) no other entry changed; (3) its score is the maximum of the score table of the graph before the call under the caller's own "
                            "insertion / deletion flags (iscore: the table as an uninterpreted function of graph, order and flags; max / where / unique / "
                            "intersect1d / argmax contracts); (4) the latter map lost exactly that successor and the key when its list became empty: lm_of "
                            "holds again on the handed-back pair - so the invariant is inductive and holds after every call of every history.  PROVED on the "
                            "real calculate_intersection_score (contract #shape-sign, six loops, for every latter map that describes an accessor): the table has "
                            "the accessor's shape, every entry is >= 0, and an entry is positive only where the accessor has an arc; it stores into nothing but "
                            "its own table.  DEFINITIONAL: 'the intersection score' is what that function returns; that it is a function of (graph, order, "
                            "flags) only is the purity analysis of C20.  NOT COVERED by the proof: exceptions raised by the statistics computed after the "
                            "update (reshape / Counter / argsort; those statements are opaque), which end the history; the numeric value of the scores "
                            "(bounded tier: an independent set-based restatement of the scoring scheme).",
                demoted=["numeric value of the scores against the set-based restatement - bounded B2 (not a clause of the property)",
                         "exceptions of the post-update statistics - bounded B2"],
                claim="Deductive for every clause of the statement: per-call effect, inductive two-view invariant, maximality under the call's flags, shape and "
                      "sign of the score table (all graphs, k <= 31, all histories by induction).",
                note="Trusted: numpy max/where(2-D)/unique/intersect1d/argmax/log/union1d contracts (conformance-checked in the thorough tier), dict model; "
                     "obtain_leaf_vertices is used through an assumed contract (returns some array, modifies nothing).",
                technique="per-call contract with representation invariant consistent(accessor, latter_map) + loop invariants on the score table + bounded removal sequences"),
    "C20": dict(title="Library calls are stateless and never modify their arguments", level="other", bounded=["C20"], design="8/C20",
                proof=["frame:*", "dsw.spiderweb.create_random_shuffles#seed", "dsw.operation.Monitor.__call__#idle", "dsw.operation.Monitor.__call__#running",
                       "lemma.ipow_mono"],
                explanation="STATIC FRAME PROOF over the real ASTs of every module-level function (30) of dsw/operation.py, graphized.py, spiderweb.py (flow-sensitive may-alias "
                            "analysis, numpy views vs copies): (1) every store (item / augmented / del / append / insert / shuffle / attribute) targets an object "
                            "allocated in the current call - never a parameter or a view of one (arc removal excepted for its two documented in-place "
                            "parameters); (2) no global / nonlocal, no read of module-level mutable state, no caching decorator, the global generator is "
                            "used only by the two randomised calls - so each call is a function of its arguments (and the generator state); (3) every "
                            "block guarded by `verbose` consists of print / monitor expression statements only: it binds nothing and cannot leave, so "
                            "turning progress output on cannot change a result.  In addition the contracts of the functions proved under C01..C19 "
                            "carry the frame obligation for each of their stores, and create_random_shuffles is proved to depend on (length, seed) "
                            "only.  PROVED on the real Monitor.__call__ (idle and running receiver): under the precondition 'nothing to report yet (current == 0) or a "
                            "non-empty job (total != 0)' its two divisions cannot raise and it returns None; that precondition is an obligation at every "
                            "monitor call site of the functions verified under C01..C19 (the percentage, times and the display text are opaque: string "
                            "formatting statements are skipped, floats are finite by assumption).  BOUNDED: the text-formatting statements of the monitor, "
                            "verbose runs of functions not under contract, and the fresh-process comparison (snapshot histories, B2).",
                demoted=["verbose output never raises: text formatting inside Monitor and functions not under contract - bounded B2",
                         "fresh-process equality - bounded B2 (follows from (1)+(2) for the modelled sources of state)"],
                claim="Static (all inputs, all interleavings) for the frame / purity / verbose-shape obligations; bounded for the two clauses above.",
                note="Trusted: the view-versus-copy table in pyvc/frame.py (basic indexing, .T, reshape, row iteration are views; fancy / boolean-mask "
                     "indexing, .tolist(), list(), array(), arithmetic and every call result are copies); Monitor instances are call-local.",
                technique="static frame (modifies-nothing) obligations over every store in the public functions + bounded snapshot histories"),
}

NOT_APPLICABLE = {
    "C17": "floating-point convergence of a power iteration to a spectral radius under a spectral-gap precondition: not expressible in the "
           "integer/array/uninterpreted-function theories available to a contract VC generator (DESIGN.md section 10)",
}


def _lemma_closure():
    """add to every proof list the lemmas its units call (ghost code, lemma proofs, harness sources), transitively."""
    import importlib
    import re as _re
    texts, lemma_names = {}, set()
    from contracts import lemmas as _lem, harness as _har
    for L in _lem.LEMMAS:
        lemma_names.add(L["name"])
        texts["lemma." + L["name"]] = (L.get("proof") or "") + " " + " ".join(L.get("lemmas", []))
    for modn in ("operation", "graphized", "spiderweb", "biofilter", "harness"):
        mod = importlib.import_module("contracts." + modn)
        for c in mod.CONTRACTS:
            t = " ".join(str(v) for v in c.get("ghost", {}).values()) + " " + " ".join(c.get("lemmas", []))
            if c["name"].startswith("harness."):
                t += " " + _har.SOURCE.get(c["name"], "")
            texts[c["name"]] = t

    def used(name):
        return {n for n in lemma_names if _re.search(r"\b" + _re.escape(n) + r"\(", texts.get(name, "")) or n in texts.get(name, "").split()}
    for P in PROPS.values():
        todo, have = list(P.get("proof", [])), set(P.get("proof", []))
        while todo:
            for n in used(todo.pop()):
                if "lemma." + n not in have:
                    have.add("lemma." + n)
                    P["proof"].append("lemma." + n)
                    todo.append("lemma." + n)


_lemma_closure()
