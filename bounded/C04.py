"""C04 bounded stand-in: encoding is total, dead-end free and tight on generated graphs."""
import random

import numpy

from contracts import specs as S
from bounded.common import outcome
from bounded import gen

RULE = ("generated graphs: seeded order-2 masks (quick 800 / thorough 4000) and order-3 masks (quick 60 / thorough 300) x thresholds "
        "1..4 through connect_coding_graph, + the built-in filter grid, + complete graphs k = 1..3; every retained start (<= 8 quick) x "
        "seeded messages (1..64 bits) x {normal, fast}: terminates (10 s watchdog) with len(strand) <= L*|V|, no out-degree error, "
        "strand is a walk, last step branching, product of earlier out-degrees <= message value, <= L nt on t >= 2 graphs, "
        "<= ceil(L/2) on complete graphs, fast-mode carried bits in {L, L+1}; non-trivial = graph has a vertex of out-degree 1 or message >= 8 bits")
EXHAUSTIVE = {"quick": False, "thorough": False}
CHUNK = 4


def cases(tier, rng):
    for k, cnt in ((2, 800 if tier == "quick" else 4000), (3, 60 if tier == "quick" else 300)):
        for _ in range(cnt):
            dens = rng.choice((0.4, 0.6, 0.8, 0.95))
            m = sum(1 << i for i in range(4 ** k) if rng.random() < dens)
            yield {"src": "mask", "k": k, "mask": m, "t": rng.choice((1, 1, 2, 3, 4)), "seed": rng.getrandbits(32), "nt": True}
    for i in range(len(gen.FILTER_GRID)):
        for t in (1, 2, 3):
            yield {"src": "filter", "cfg": i, "t": t, "seed": rng.getrandbits(32), "nt": True}
    for k in (1, 2, 3):
        yield {"src": "complete", "k": k, "t": 4, "seed": rng.getrandbits(32), "nt": True}


def check(case):
    from dsw import encode, connect_coding_graph
    fails = []
    r = random.Random(case["seed"])
    t = case["t"]
    if case["src"] == "mask":
        k = case["k"]
        bits = [(case["mask"] >> i) & 1 for i in range(4 ** k)]
        g = outcome(connect_coding_graph, k, numpy.array(bits), t, limit=60)
        if g[0] != "ok":
            return fails                  # whether raising was right is C03's clause
        acc = g[1][1]
        tag = f"k={k} mask={case['mask']:#x} t={t}"
    elif case["src"] == "filter":
        gg = gen.generated_graph(case["cfg"], t)
        if gg is None:
            return fails
        acc = gg[2]
        k = gen.FILTER_GRID[case["cfg"]][0]
        tag = f"cfg={gen.FILTER_GRID[case['cfg']]} t={t}"
    else:
        k = case["k"]
        acc = gen.complete(k)
        tag = f"complete k={k}"
    n = 4 ** k
    starts = S.vertices_with_arcs(acc)
    r.shuffle(starts)
    nv = len(starts)
    no3 = all(len(S.live(acc, v)) != 3 for v in range(n))
    for start in starts[:8]:
        for _ in range(4):
            L = r.randint(1, 64)
            msg = [r.randint(0, 1) for _ in range(L)]
            m = S.val2(msg)
            o = outcome(encode, numpy.array(msg, dtype=int), acc, start, limit=10)
            ctx = f"{tag} start={start} bits={msg}"
            if o[0] == "timeout":
                fails.append((f"normal:nontermination:t{t}", f"{ctx}: encode did not return within 10 s"))
                return fails
            if o[0] != "ok":
                fails.append((f"normal:raises:{o[1]}", f"{ctx}: {o!r}"))
                continue
            s = o[1]
            if not S.is_walk(acc, start, s):
                fails.append(("normal:not-a-walk", f"{ctx}: strand {s!r} is not a walk"))
                continue
            if len(s) > L * nv:
                fails.append(("normal:steps", f"{ctx}: {len(s)} steps > L*|V| = {L * nv}"))
            vs = S.walk_vertices(acc, start, s)
            degs = [len(S.live(acc, v)) for v in vs[:-1]]
            if s:
                if degs[-1] < 2:
                    fails.append(("normal:tight:last", f"{ctx}: last nucleotide of {s!r} carries no information"))
                w = 1
                for d in degs[:-1]:
                    w *= d
                if w > m:
                    fails.append(("normal:tight:weight", f"{ctx}: product of out-degrees before the last step {w} > message value {m}"))
            if t >= 2 and case["src"] != "complete" and len(s) > L:
                fails.append(("normal:tight:L", f"{ctx}: {len(s)} nt for an {L}-bit message on a threshold-{t} graph"))
            if case["src"] == "complete" and len(s) > (L + 1) // 2:
                fails.append(("normal:tight:L/2", f"{ctx}: {len(s)} nt > ceil(L/2) on the complete graph"))
            if no3:
                o = outcome(encode, numpy.array(msg, dtype=int), acc, start, is_faster=True, limit=10)
                if o[0] == "timeout":
                    fails.append((f"fast:nontermination:t{t}", f"{ctx}: fast encode did not return within 10 s"))
                    return fails
                if o[0] != "ok":
                    fp = "fast:raises:IndexError:tail-at-4way" if (o[0] == "raise" and o[1] == "IndexError") else f"fast:raises:{o[1]}"
                    fails.append((fp, f"{ctx}: fast {o!r}"))
                    continue
                s = o[1]
                if not S.is_walk(acc, start, s):
                    fails.append(("fast:not-a-walk", f"{ctx}: fast strand {s!r} is not a walk"))
                    continue
                vs = S.walk_vertices(acc, start, s)
                degs = [len(S.live(acc, v)) for v in vs[:-1]]
                carried = sum({4: 2, 2: 1, 1: 0}[d] for d in degs)
                if carried not in (L, L + 1) or (s and degs[-1] < 2) or len(s) > L * nv:
                    fails.append(("fast:tight", f"{ctx}: fast strand {s!r} carries {carried} bits for L={L}"))
            if len(fails) > 6:
                return fails
    return fails
