"""C02 bounded stand-in: emitted strands obey the constraints they were generated for (+ constructor clause)."""
import numpy

from contracts import specs as S
from bounded.common import outcome
from bounded import gen

RULE = ("chain find_vertices -> connect_coding_graph -> encode on the built-in filter grid and two user-defined window predicates x "
        "thresholds 1..4 x every retained start (<= 12 per graph quick) x seeded messages (len 1..40) x {no table, random table} x "
        "{normal, fast}: every k-window of kmer(start)+strand accepted, whole-sequence verdicts for window-decidable "
        "configurations; constructor clause: every (k 1..6, run 0..k+2, motif lengths 1..k+2) the constructor accepts is "
        "window-decidable; non-trivial = strand longer than one window")
EXHAUSTIVE = {"quick": False, "thorough": False}
CHUNK = 2


def cases(tier, rng):
    for k in range(1, 7):
        for run in [None] + list(range(0, k + 3)):
            for ml in [None] + list(range(1, k + 3)):
                yield {"kind": "ctor", "k": k, "run": run, "motif_len": ml, "nt": True}
    reps = 6 if tier == "quick" else 25
    for i in range(len(gen.FILTER_GRID)):
        for t in (1, 2, 3, 4):
            for rep in range(reps):
                yield {"kind": "chain", "cfg": i, "t": t, "seed": rng.getrandbits(32), "max_starts": 12 if tier == "quick" else 64, "nt": True}
    for k in (2, 3):
        for t in (1, 2, 3):
            for rep in range(reps):
                yield {"kind": "user", "k": k, "t": t, "seed": rng.getrandbits(32), "param": rep % 3, "max_starts": 12, "nt": True}


def strand_checks(tag, acc, starts, k, accept, whole, rng, max_starts, fails):
    import random
    from dsw import encode
    r = random.Random(rng)
    table = gen.random_table(r, k)
    starts = list(starts)
    r.shuffle(starts)
    for start in starts[:max_starts]:
        if not S.wf_graph(acc, start):
            continue                      # generation defect is C03/C04's business
        bits = [r.randint(0, 1) for _ in range(r.randint(1, 40))]
        for fast in (False, True):
            if fast and any(len(S.live(acc, v)) == 3 for v in range(len(acc))):
                continue
            for sh in (None, table):
                o = outcome(encode, numpy.array(bits), acc, start, is_faster=fast, shuffles=sh, limit=20)
                if o[0] != "ok":
                    continue              # no strand emitted: totality of encode is C01/C04's clause
                strand = o[1]
                full = S.kmer(start, k) + strand
                for i in range(len(full) - k + 1):
                    if not accept(full[i:i + k]):
                        fails.append(("chain:window", f"{tag} start={start} bits={bits} fast={fast} table={'yes' if sh is not None else 'no'}: "
                                      f"window {full[i:i + k]!r} at {i} of {full!r} rejected by the filter"))
                        return
                if whole is not None and strand:
                    if not whole(strand) or not whole(full):
                        fails.append(("chain:whole", f"{tag} start={start} strand={strand!r}: whole-sequence check fails"))
                        return


def check(case):
    from dsw import LocalBioFilter, find_vertices, connect_coding_graph, DefaultBioFilter
    fails = []
    if case["kind"] == "ctor":
        k, run, ml = case["k"], case["run"], case["motif_len"]
        motifs = None if ml is None else ["ACGTACGTAC"[:ml]]
        o = outcome(LocalBioFilter, observed_length=k, max_homopolymer_runs=run, undesired_motifs=motifs)
        if o[0] == "ok" and not S.window_decidable(k, run, motifs):
            why = "run==k" if (run is not None and run == k) else ("run>k" if run is not None and run > k else "motif>k")
            fails.append((f"ctor:accepted-undecidable:{why}",
                          f"LocalBioFilter(observed_length={k}, max_homopolymer_runs={run}, undesired_motifs={motifs}) accepted but not window-decidable"))
        if o[0] == "raise" and o[1] != "ValueError":
            fails.append(("ctor:raises", f"constructor k={k} run={run} motifs={motifs}: {o!r}"))
        return fails
    if case["kind"] == "chain":
        cfg = gen.FILTER_GRID[case["cfg"]]
        k = cfg[0]
        f = gen.make_filter(cfg)
        accept = lambda w: bool(f.valid(w, False))
        whole = (lambda s: bool(f.valid(s, False))) if S.window_decidable(cfg[0], cfg[1], cfg[3]) else None
        tag = f"cfg={cfg} t={case['t']}"
    else:
        k = case["k"]
        p = case["param"]

        class F(DefaultBioFilter):
            def __init__(self):
                super().__init__(screen_name="user")

            def valid(self, dna_string):
                return (S.val4(dna_string) * 5 + p) % 7 not in (0, 3)
        f = F()
        accept = lambda w: bool(f.valid(w))
        whole = None
        tag = f"user k={k} p={p} t={case['t']}"
    o = outcome(find_vertices, k, f, limit=60)
    if o[0] != "ok":
        if not (o[0] == "raise" and o[1] == "ValueError"):
            fails.append(("chain:find_vertices", f"{tag}: {o!r}"))
        return fails
    g = outcome(connect_coding_graph, k, o[1], case["t"], limit=60)
    if g[0] != "ok":
        return fails          # C03 decides whether raising was right
    acc = g[1][1]
    strand_checks(tag, acc, S.vertices_with_arcs(acc), k, accept, whole, case["seed"], case["max_starts"], fails)
    return fails
