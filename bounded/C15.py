"""C15 bounded stand-in: the four calculus_* helpers against Python integers."""
from contracts import specs as S
from bounded.common import outcome

RULE = ("numbers: every integer 0..N (N=1200 quick / 20000 thorough) plus the families 9..9, 10..0, 10..01, d9..9 up to "
        "60 (quick) / 1300 (thorough) digits plus seeded random strings up to 60 digits; operand digits 0..9 "
        "(division 1..9, subtraction when number >= digit); one case = (number, digit) with all four operations; "
        "non-trivial = number has >= 2 digits")
EXHAUSTIVE = {"quick": False, "thorough": False}
CHUNK = 64


def cases(tier, rng):
    top = 1200 if tier == "quick" else 20000
    nums = [str(i) for i in range(top + 1)]
    lens = list(range(2, 61)) if tier == "quick" else list(range(2, 200)) + [300, 500, 800, 1300]
    for n in lens:
        nums += ["9" * n, "1" + "0" * (n - 1), "1" + "0" * (n - 2) + "1", "4" + "9" * (n - 1), "5" * n]
    for _ in range(400 if tier == "quick" else 6000):
        n = rng.randint(1, 60)
        nums.append(str(rng.randint(1, 9)) + "".join(rng.choice("0123456789") for _ in range(n - 1)))
    for s in nums:
        for d in range(10):
            yield {"number": s, "digit": str(d), "nt": len(s) >= 2}


def check(case):
    from dsw import calculus_addition, calculus_subtraction, calculus_multiplication, calculus_division
    s, d = case["number"], case["digit"]
    n, b = int(s), int(d)
    fails = []

    def expect(name, got, want):
        if got != ("ok", want):
            fails.append((f"{name}", f"{name}({s!r},{d!r}) -> {got!r}, expected {want!r}"))
    expect("calculus_addition", outcome(calculus_addition, s, d), str(n + b))
    expect("calculus_multiplication", outcome(calculus_multiplication, s, d), str(n * b))
    if b >= 1:
        expect("calculus_division", outcome(calculus_division, s, d), (str(n // b), str(n % b)))
    if n >= b:
        expect("calculus_subtraction", outcome(calculus_subtraction, s, d), str(n - b))
    return fails
