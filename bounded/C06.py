"""C06 bounded stand-in: decode accepts exactly the walks (ValueError and nothing else otherwise)."""
import random

import numpy

from contracts import specs as S
from bounded.common import outcome
from bounded import gen
from bounded.C05 import graph_of, graph_cases

RULE = ("graphs as in C05 (arc subsets incl. vertices without arcs: p_live 0.5 variants) x start vertices x strings: all strings over "
        "ACGT of length 0..5 (first graphs), walks, walks with seeded edits, random strings, strings with foreign characters (N, lower "
        "case, digits), empty; x check absent / right / wrong (lengths 1..3) x {normal, fast with bit budget}; verdict: returns an "
        "array of the requested length iff walk and check matches, else ValueError only; non-trivial = string length >= 2")
EXHAUSTIVE = {"quick": False, "thorough": False}
CHUNK = 4


def cases(tier, rng):
    gs = graph_cases(tier, rng)
    for k in (1, 2):
        for _ in range(3 if tier == "quick" else 30):
            gs.append({"graph": "subset", "k": k, "gseed": rng.getrandbits(32)})
    for g in gs:
        for rep in range(6 if tier == "quick" else 12):
            c = dict(g)
            c.update({"mseed": rng.getrandbits(32), "nt": True})
            yield c


def strings(r, acc, n, small):
    import itertools
    out = []
    if small:
        for L in range(0, 6):
            out += ["".join(t) for t in itertools.product("ACGT", repeat=L)]
    for _ in range(40):
        start = r.randrange(n)
        w = gen.random_walk(r, acc, start, r.randint(0, 20)) or ""
        out.append(w)
        if w:
            p = r.randrange(len(w))
            out.append(w[:p] + r.choice("ACGT") + w[p + 1:])
            out.append(w[:p] + w[p + 1:])
            out.append(w[:p] + r.choice("ACGTN") + w[p:])
            out.append(w[:p] + r.choice("Nacgt0-") + w[p + 1:])
        out.append("".join(r.choice("ACGT") for _ in range(r.randint(1, 12))))
    out += ["", "N", "a", "AC GT", "ACGTN"]
    return out


def check(case):
    from dsw import decode
    if case["graph"] == "subset":
        r0 = random.Random(case["gseed"])
        k = case["k"]
        acc = gen.random_arc_subset(r0, k, 0.5)
    else:
        acc, k = graph_of(case)
    r = random.Random(case["mseed"])
    n = 4 ** k
    fails = []
    no3 = all(len(S.live(acc, v)) != 3 for v in range(n))
    table = gen.random_table(r, k)
    for s in strings(r, acc, n, small=(case["mseed"] % 4 == 0)):
        start = r.randrange(n)
        sh = r.choice((None, table))
        walk = S.is_walk(acc, start, s)
        L = r.randint(0, 40)
        foreign = any(S.code(c) is None for c in s)
        chk_mode = r.choice(("none", "none", "right", "wrong"))
        chk = None
        chk_ok = True
        if chk_mode != "none" and not foreign:
            nchk = r.randint(1, 3)
            chk = S.vt_spec(s, nchk)
            if chk_mode == "wrong":
                p = r.randrange(nchk)
                chk = chk[:p] + S.NUC[(S.code(chk[p]) + r.randint(1, 3)) % 4] + chk[p + 1:]
                chk_ok = False
        elif chk_mode != "none":
            chk, chk_ok = "AC", False       # a foreign character never matches a check
        accept = walk and chk_ok
        tag = f"{case['graph']} k={k} gseed={case['gseed']} start={start} s={s!r} L={L} check={chk!r} table={'yes' if sh is not None else 'no'}"
        d = outcome(decode, s, L, acc, start, vt_check=chk, shuffles=sh)
        if accept:
            if d[0] != "ok" or len(d[1]) != L:
                fp = "normal:walk-rejected" + (":" + d[1] if d[0] == "raise" else "")
                if s == "" and chk is not None and d[0] == "raise" and d[1] == "TypeError":
                    fp = "normal:empty-strand-check"
                fails.append((fp, f"{tag}: is a walk with matching check but decode -> {d!r}"))
        else:
            if d[0] != "raise" or d[1] != "ValueError":
                fp = "normal:nonwalk-accepted" if d[0] == "ok" else "normal:wrong-exception:" + (d[1] if d[0] == "raise" else "timeout")
                if s == "" and chk is not None and d[0] == "raise" and d[1] == "TypeError":
                    fp = "normal:empty-strand-check"
                fails.append((fp, f"{tag}: walk={walk} check_ok={chk_ok} but decode -> {d!r}"))
        if no3:
            p, _ = S.walk_prefix(acc, start, s)
            carried = len(S.fast_bits_of_walk(acc, start, s[:p], sh))
            Lf = carried + r.randint(0, 3)
            d = outcome(decode, s, Lf, acc, start, is_faster=True, vt_check=chk, shuffles=sh)
            if accept:
                if d[0] != "ok" or len(d[1]) != Lf:
                    fails.append(("fast:walk-rejected", f"{tag} Lf={Lf}: fast decode -> {d!r}"))
            elif d[0] != "raise" or d[1] != "ValueError":
                fp = "fast:nonwalk-accepted" if d[0] == "ok" else "fast:wrong-exception:" + (d[1] if d[0] == "raise" else "timeout")
                if s == "" and chk is not None and d[0] == "raise" and d[1] == "TypeError":
                    fp = "fast:empty-strand-check"
                fails.append((fp, f"{tag} Lf={Lf}: walk={walk} check_ok={chk_ok} but fast decode -> {d!r}"))
        if len(fails) > 6:
            break
    return fails
