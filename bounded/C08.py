"""C08 bounded stand-in: repair recovers the original strand for separated interior edits."""
import random

import numpy

from contracts import specs as S
from bounded.common import outcome
from bounded import gen

RULE = ("graphs: connect_coding_graph on the built-in filter grid (k = 2, 3, 4) at t = 2 (+ t = 1, 3 thorough); walks of length 5k+2..8k+4 "
        "from seeded retained starts (quick 8 per graph / thorough 40); EVERY single edit (each position in [k, n-2k), substitution by each "
        "other nucleotide, insertion of each nucleotide, deletion): detected <=> corrupted strand is not a walk, w in candidates when detected "
        "== 1 (also with the check of w, length 3), substitutions also with indel handling off; + seeded edit sets with pairwise distance >= "
        "3k+2 on longer walks; non-trivial = every case (one walk with all its single edits)")
EXHAUSTIVE = {"quick": False, "thorough": False}
CHUNK = 1


def cases(tier, rng):
    ts = (2,) if tier == "quick" else (2, 1, 3)
    for i, cfg in enumerate(gen.FILTER_GRID):
        if cfg[0] > 4:
            continue
        for t in ts:
            for rep in range(8 if tier == "quick" else 40):
                yield {"cfg": i, "t": t, "seed": rng.getrandbits(32), "nt": True}


def apply_edits(w, edits):
    """edits: list of (pos, kind, nucleotide) on original coordinates; applied right to left."""
    s = w
    for p, kind, c in sorted(edits, reverse=True):
        if kind == "S":
            s = s[:p] + c + s[p + 1:]
        elif kind == "I":
            s = s[:p] + c + s[p:]
        else:
            s = s[:p] + s[p + 1:]
    return s


def check(case):
    from dsw import repair_dna, set_vt
    gg = gen.generated_graph(case["cfg"], case["t"])
    fails = []
    if gg is None:
        return fails
    _, starts, acc = gg
    k = gen.FILTER_GRID[case["cfg"]][0]
    r = random.Random(case["seed"])
    start = r.choice(starts)
    if not S.wf_graph(acc, start):
        return fails
    n = r.randint(5 * k + 2, 8 * k + 4)
    w = gen.random_walk(r, acc, start, n)
    if w is None:
        return fails
    chk = S.vt_spec(w, 3)
    tag = f"cfg={gen.FILTER_GRID[case['cfg']]} t={case['t']} start={start} w={w!r}"
    singles = []
    for p in range(k, n - 2 * k):
        for c in "ACGT":
            if c != w[p]:
                singles.append((p, "S", c))
            singles.append((p, "I", c))
        singles.append((p, "D", w[p]))
    for e in singles:
        bad = apply_edits(w, [e])
        if bad == w:
            continue
        walk = S.is_walk(acc, start, bad)
        for indel in ((True, False) if e[1] == "S" else (True,)):
            o = outcome(repair_dna, bad, acc, start, k, has_indel=indel, heap_size=1e12, limit=60)
            if o[0] != "ok":
                fails.append(("single:" + ("raises:" + o[1] if o[0] == "raise" else "timeout"), f"{tag} edit={e} indel={indel}: {o!r}"))
                continue
            cands, stats = o[1]
            detected = stats[0]
            if (detected >= 1) != (not walk):
                fails.append(("single:detection", f"{tag} edit={e} indel={indel}: corrupted strand walk={walk} but detected={detected} (stats {stats})"))
            if detected == 1 and w not in cands:
                fails.append(("single:not-recovered", f"{tag} edit={e} indel={indel}: detected 1 error but the original is not among {len(cands)} candidates"))
            if detected == 1 and indel:
                o2 = outcome(repair_dna, bad, acc, start, k, vt_check=chk, has_indel=True, heap_size=1e12, limit=60)
                if o2[0] != "ok" or (o2[1][1][0] == 1 and w not in o2[1][0]):
                    fails.append(("single:not-recovered-with-check", f"{tag} edit={e}: with check {chk!r} -> {str(o2)[:200]}"))
        if len(fails) > 5:
            return fails
    # edit sets obeying the spacing rule, on a longer walk
    for _ in range(6):
        n2 = r.randint(12 * k + 6, 20 * k + 10)
        w2 = gen.random_walk(r, acc, start, n2)
        if w2 is None:
            break
        pos, p = [], k + r.randint(0, k)
        while p < n2 - 2 * k:
            pos.append(p)
            p += 3 * k + 2 + r.randint(0, k)
        if not pos:
            continue
        pos = r.sample(pos, r.randint(1, len(pos)))
        edits = []
        for p in pos:
            kind = r.choice("SID")
            c = r.choice([x for x in "ACGT" if x != w2[p]]) if kind == "S" else (r.choice("ACGT") if kind == "I" else w2[p])
            edits.append((p, kind, c))
        bad = apply_edits(w2, edits)
        o = outcome(repair_dna, bad, acc, start, k, has_indel=True, heap_size=1e12, limit=120)
        if o[0] != "ok":
            fails.append(("set:" + ("raises:" + o[1] if o[0] == "raise" else "timeout"), f"{tag} w2={w2!r} edits={edits}: {str(o)[:200]}"))
            continue
        cands, stats = o[1]
        if stats[0] == len(edits) and w2 not in cands:
            fails.append(("set:not-recovered", f"{tag} w2={w2!r} edits={edits}: detected {stats[0]} = number of edits but original not among {len(cands)} candidates"))
        if stats[0] == len(edits):
            chk2 = S.vt_spec(w2, 3)
            o2 = outcome(repair_dna, bad, acc, start, k, vt_check=chk2, has_indel=True, heap_size=1e12, limit=120)
            if o2[0] != "ok" or (o2[1][1][0] == len(edits) and w2 not in o2[1][0]):
                fails.append(("set:not-recovered-with-check", f"{tag} w2={w2!r} edits={edits}: {str(o2)[:200]}"))
    return fails
