"""C16 bounded stand-in: bit/number/DNA conversions are exact inverses (string and int paths)."""
from contracts import specs as S
from bounded.common import outcome

RULE = ("bit arrays: all of length 0..9 (quick) / 0..13 (thorough) exhaustively + seeded random up to 200 bits; DNA strings: "
        "all of length 0..4 (quick) / 0..6 (thorough) + seeded random up to 100 nt; each checked on the string and the int "
        "path, round trip with the original length, value against val2/val4, left padding at width len+3; "
        "plus numbers BEYOND CPython's 4300-digit int<->str conversion limit (a 7160-nt strand both ways on the string path, quick; a 14300-bit array both ways, "
        "thorough): the string-typed arithmetic exists for exactly these sizes; non-trivial = length >= 2 and not all-zero")
EXHAUSTIVE = {"quick": False, "thorough": False}
CHUNK = 16


def big_str(n):
    """decimal rendering of a non-negative int without tripping the interpreter's digit limit (rendered in 1000-digit limbs)."""
    parts, base = [], 10 ** 1000
    while True:
        n, r = divmod(n, base)
        parts.append(r)
        if n == 0:
            break
    return str(parts[-1]) + "".join("%01000d" % q for q in reversed(parts[:-1]))


def cases(tier, rng):
    import itertools
    # the long cases first: they take ~15 s each and run in their own pool tasks
    yield {"kind": "long-dna", "dir": "to_dna", "x": "C" + "".join(rng.choice("ACGT") for _ in range(7159)), "nt": True}
    longs = [{"kind": "long-dna", "dir": "to_number", "x": "G" + "".join(rng.choice("ACGT") for _ in range(7159)), "nt": True}]
    if tier != "quick":
        longs.append({"kind": "long-bits", "dir": "to_bits", "x": [1] + [rng.randint(0, 1) for _ in range(14299)], "nt": True})
        longs.append({"kind": "long-bits", "dir": "to_number", "x": [1] + [rng.randint(0, 1) for _ in range(14299)], "nt": True})
    for n in range(0, 10 if tier == "quick" else 14):
        for bits in itertools.product((0, 1), repeat=n):
            yield {"kind": "bits", "x": list(bits), "nt": n >= 2 and any(bits)}
        if n >= 4 and longs:          # one long case per pool task
            yield longs.pop()
    for n in range(0, 5 if tier == "quick" else 7):
        for dna in itertools.product("ACGT", repeat=n):
            yield {"kind": "dna", "x": "".join(dna), "nt": n >= 2 and any(c != "A" for c in dna)}
    for _ in range(150 if tier == "quick" else 3000):
        n = rng.randint(10, 200)
        yield {"kind": "bits", "x": [rng.randint(0, 1) for _ in range(n)], "nt": True}
        n = rng.randint(5, 100)
        yield {"kind": "dna", "x": "".join(rng.choice("ACGT") for _ in range(n)), "nt": True}


def check(case):
    from dsw import bit_to_number, number_to_bit, dna_to_number, number_to_dna
    fails = []
    x = case["x"]
    n = len(x)
    if case["kind"] == "long-dna":
        want = S.val4(x)
        text = big_str(want)
        if case["dir"] == "to_dna":
            for num, tag in ((text, "str"), (want, "int")):
                r = outcome(number_to_dna, num, n, limit=300)
                if r != ("ok", x):
                    fails.append(("number_to_dna:long-" + tag, f"number_to_dna(<{len(text)}-digit {tag}>, {n}) -> {str(r)[:80]!r}, expected the {n}-nt strand it came from"))
        else:
            a = outcome(dna_to_number, x, True, limit=300)
            if a != ("ok", text):
                fails.append(("dna_to_number:long-str", f"dna_to_number(<{n}-nt strand>, True) -> {str(a)[:80]!r}, expected the {len(text)}-digit value"))
            b = outcome(dna_to_number, x, False, limit=300)
            if b != ("ok", want):
                fails.append(("dna_to_number:long-int", f"dna_to_number(<{n}-nt strand>, False) -> {str(b)[:80]!r}"))
        return fails
    if case["kind"] == "long-bits":
        want = S.val2(x)
        text = big_str(want)
        if case["dir"] == "to_bits":
            for num, tag in ((text, "str"), (want, "int")):
                r = outcome(number_to_bit, num, n, limit=600)
                if r[0] != "ok" or list(r[1]) != list(x):
                    fails.append(("number_to_bit:long-" + tag, f"number_to_bit(<{len(text)}-digit {tag}>, {n}) -> {str(r)[:80]!r}"))
        else:
            a = outcome(bit_to_number, x, True, limit=600)
            if a != ("ok", text):
                fails.append(("bit_to_number:long-str", f"bit_to_number(<{n} bits>, True) -> {str(a)[:80]!r}"))
            b = outcome(bit_to_number, x, False, limit=600)
            if b != ("ok", want):
                fails.append(("bit_to_number:long-int", f"bit_to_number(<{n} bits>, False) -> {str(b)[:80]!r}"))
        return fails
    if case["kind"] == "bits":
        want = S.val2(x)
        a = outcome(bit_to_number, x, True)
        b = outcome(bit_to_number, x, False)
        if a != ("ok", str(want)):
            fails.append(("bit_to_number:str", f"bit_to_number({x}, True) -> {a!r}, expected {str(want)!r}"))
        if b[0] != "ok" or type(b[1]) is not int or b[1] != want:
            fails.append(("bit_to_number:int", f"bit_to_number({x}, False) -> {b!r}, expected {want}"))
        for num in (str(want), want):
            r = outcome(number_to_bit, num, n)
            if r != ("ok", list(x)):
                fails.append(("number_to_bit:roundtrip", f"number_to_bit({num!r}, {n}) -> {r!r}, expected {x}"))
            r = outcome(number_to_bit, num, n + 3)
            if r != ("ok", [0, 0, 0] + list(x)):
                fails.append(("number_to_bit:padding", f"number_to_bit({num!r}, {n + 3}) -> {r!r}"))
    else:
        want = S.val4(x)
        a = outcome(dna_to_number, x, True)
        b = outcome(dna_to_number, x, False)
        if a != ("ok", str(want)):
            fails.append(("dna_to_number:str", f"dna_to_number({x!r}, True) -> {a!r}, expected {str(want)!r}"))
        if b[0] != "ok" or type(b[1]) is not int or b[1] != want:
            fails.append(("dna_to_number:int", f"dna_to_number({x!r}, False) -> {b!r}, expected {want}"))
        for num in (str(want), want):
            r = outcome(number_to_dna, num, n)
            if r != ("ok", x):
                fails.append(("number_to_dna:roundtrip", f"number_to_dna({num!r}, {n}) -> {r!r}, expected {x!r}"))
            r = outcome(number_to_dna, num, n + 2)
            if r != ("ok", "AA" + x):
                fails.append(("number_to_dna:padding", f"number_to_dna({num!r}, {n + 2}) -> {r!r}"))
    return fails
