"""C16 bounded stand-in: bit/number/DNA conversions are exact inverses (string and int paths)."""
from contracts import specs as S
from bounded.common import outcome

RULE = ("bit arrays: all of length 0..9 (quick) / 0..13 (thorough) exhaustively + seeded random up to 200 bits; DNA strings: "
        "all of length 0..4 (quick) / 0..6 (thorough) + seeded random up to 100 nt; each checked on the string and the int "
        "path, round trip with the original length, value against val2/val4, left padding at width len+3; "
        "non-trivial = length >= 2 and not all-zero")
EXHAUSTIVE = {"quick": False, "thorough": False}
CHUNK = 64


def cases(tier, rng):
    import itertools
    for n in range(0, 10 if tier == "quick" else 14):
        for bits in itertools.product((0, 1), repeat=n):
            yield {"kind": "bits", "x": list(bits), "nt": n >= 2 and any(bits)}
    for n in range(0, 5 if tier == "quick" else 7):
        for dna in itertools.product("ACGT", repeat=n):
            yield {"kind": "dna", "x": "".join(dna), "nt": n >= 2 and any(c != "A" for c in dna)}
    for _ in range(150 if tier == "quick" else 3000):
        n = rng.randint(10, 200)
        yield {"kind": "bits", "x": [rng.randint(0, 1) for _ in range(n)], "nt": True}
        n = rng.randint(5, 100)
        yield {"kind": "dna", "x": "".join(rng.choice("ACGT") for _ in range(n)), "nt": True}


def check(case):
    from dsw import bit_to_number, number_to_bit, dna_to_number, number_to_dna
    fails = []
    x = case["x"]
    n = len(x)
    if case["kind"] == "bits":
        want = S.val2(x)
        a = outcome(bit_to_number, x, True)
        b = outcome(bit_to_number, x, False)
        if a != ("ok", str(want)):
            fails.append(("bit_to_number:str", f"bit_to_number({x}, True) -> {a!r}, expected {str(want)!r}"))
        if b[0] != "ok" or type(b[1]) is not int or b[1] != want:
            fails.append(("bit_to_number:int", f"bit_to_number({x}, False) -> {b!r}, expected {want}"))
        for num in (str(want), want):
            r = outcome(number_to_bit, num, n)
            if r != ("ok", list(x)):
                fails.append(("number_to_bit:roundtrip", f"number_to_bit({num!r}, {n}) -> {r!r}, expected {x}"))
            r = outcome(number_to_bit, num, n + 3)
            if r != ("ok", [0, 0, 0] + list(x)):
                fails.append(("number_to_bit:padding", f"number_to_bit({num!r}, {n + 3}) -> {r!r}"))
    else:
        want = S.val4(x)
        a = outcome(dna_to_number, x, True)
        b = outcome(dna_to_number, x, False)
        if a != ("ok", str(want)):
            fails.append(("dna_to_number:str", f"dna_to_number({x!r}, True) -> {a!r}, expected {str(want)!r}"))
        if b[0] != "ok" or type(b[1]) is not int or b[1] != want:
            fails.append(("dna_to_number:int", f"dna_to_number({x!r}, False) -> {b!r}, expected {want}"))
        for num in (str(want), want):
            r = outcome(number_to_dna, num, n)
            if r != ("ok", x):
                fails.append(("number_to_dna:roundtrip", f"number_to_dna({num!r}, {n}) -> {r!r}, expected {x!r}"))
            r = outcome(number_to_dna, num, n + 2)
            if r != ("ok", "AA" + x):
                fails.append(("number_to_dna:padding", f"number_to_dna({num!r}, {n + 2}) -> {r!r}"))
    return fails
