"""C10 bounded stand-in: repair always returns a well-formed pair, without raising."""
import itertools
import random

from contracts import specs as S
from bounded.common import outcome
from bounded import gen
from bounded.C09 import graphs, graph_cases, strands

RULE = ("graphs as in C09; strands: ALL ACGT strings of length k..6 (quick) / k..8 (thorough) on the doc-string graph and complete order-1 "
        "graph from two start vertices, + the seeded walks / edited walks / random strings of C09 (first nucleotide not an arc, errors in the "
        "last window) + strands with 20..128 detected errors (candidate products beyond 2^31, 2^63, 2^64, 2^127); x indel on/off x check absent/present: returns within 5 s without raising a (list of str, (int, bool, int, int)) "
        "pair, graph look-ups <= n + 9(2k-1)k(n/(k+1)+1)... checked as visited <= 40*k*k*(n+1); non-trivial = strand is not a walk")
EXHAUSTIVE = {"quick": False, "thorough": False}
CHUNK = 4


def cases(tier, rng):
    # many detected errors: the number of candidate combinations passes every machine-word boundary (2^31, 2^62..2^64, 2^127) and must still be
    # stopped by the heap limit at once
    for copies in (20, 31, 32, 40, 61, 62, 63, 64, 65, 70, 127, 128):
        yield {"graph": "doc", "k": 2, "gseed": 0, "many_errors": copies, "nt": True}
    top = 6 if tier == "quick" else 8
    for g in ({"graph": "doc", "k": 2, "gseed": 0}, {"graph": "complete", "k": 1, "gseed": 0}):
        for L in range(g["k"], top + 1):
            chunks = 4 ** min(L, 3)
            for c in range(chunks):
                yield {"graph": g["graph"], "k": g["k"], "gseed": 0, "all_len": L, "chunk": c, "chunks": chunks, "nt": True}
    for g in graph_cases(tier, rng):
        for rep in range(6 if tier == "quick" else 12):
            c = dict(g)
            c.update({"mseed": rng.getrandbits(32), "nt": True})
            yield c


def well_formed(res):
    try:
        cands, stats = res
        return (isinstance(cands, list) and all(isinstance(c, str) for c in cands) and isinstance(stats, tuple) and len(stats) == 4
                and isinstance(stats[1], bool) and all(int(stats[i]) == stats[i] and stats[i] >= 0 for i in (0, 2, 3)))
    except Exception:
        return False


def one(tag, s, acc, start, k, chk, indel, fails):
    from dsw import repair_dna
    o = outcome(repair_dna, s, acc, start, k, vt_check=chk, has_indel=indel, limit=5)
    if o[0] == "timeout":
        first_bad = S.walk_prefix(acc, start, s)[0] == 0
        fails.append(("nontermination:first-nucleotide" if first_bad else "nontermination", f"{tag}: repair_dna did not return within 5 s"))
    elif o[0] == "raise":
        fails.append(("raises:" + o[1], f"{tag}: {o!r}"))
    elif not well_formed(o[1]):
        fails.append(("malformed", f"{tag}: result {str(o[1])[:200]}"))
    elif o[1][1][3] > 40 * k * k * (len(s) + 1):
        fails.append(("lookups", f"{tag}: {o[1][1][3]} graph look-ups for n={len(s)}, k={k}"))


def check(case):
    acc, k = graphs(case)
    n = 4 ** k
    fails = []
    if "many_errors" in case:
        s = "TCTCTATCTC" * case["many_errors"]          # on the documentation graph from vertex 1: one detected error per copy, two candidates each
        for chk in (None, "ACG"):
            for indel in (False, True):
                one(f"doc k=2 start=1 s='TCTCTATCTC'*{case['many_errors']} check={chk!r} indel={indel}", s, acc, 1, k, chk, indel, fails)
        return fails
    if "all_len" in case:
        L = case["all_len"]
        pre = min(L, 3)
        head = []
        c = case["chunk"]
        for _ in range(pre):
            head.append("ACGT"[c % 4])
            c //= 4
        for tail in itertools.product("ACGT", repeat=L - pre):
            s = "".join(head) + "".join(tail)
            for start in (1, n - 2) if n > 4 else (0, 3):
                for indel in (False, True):
                    one(f"{case['graph']} k={k} start={start} s={s!r} indel={indel}", s, acc, start, k, None, indel, fails)
            if len(fails) > 1:
                break
        return fails
    r = random.Random(case["mseed"])
    for start, s, _ in strands(r, acc, k, n):
        chk = r.choice((None, S.vt_spec(s, 2)))
        indel = r.random() < 0.5
        one(f"{case['graph']} k={k} gseed={case.get('gseed')} cfg={case.get('cfg')} start={start} s={s!r} check={chk!r} indel={indel}",
            s, acc, start, k, chk, indel, fails)
        if len(fails) > 1:
            break
    return fails
