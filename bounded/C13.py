"""C13 bounded stand-in: indices are k-mers, arcs are shift-append (string level oracle)."""
from contracts import specs as S
from bounded.common import outcome

RULE = ("every vertex of every order k = 1..5 (quick) / 1..7 (thorough) plus seeded vertices for k = 8..12; successor and "
        "predecessor lists against the k-mer string operations (drop first + append / drop last + prepend), duality, "
        "int paths of dna_to_number / number_to_dna; complete accessor for k <= 4 (quick) / 6 (thorough); every graph built (valid / coding graph, t = 1, 2) or "
        "converted (latter map with and without trimming - also a caller-built latter map listing the same arcs in another order -, adjacency matrix) from seeded masks / arc subsets, k = 1..3, holds -1 or the j-th shift successor "
        "in column j; non-trivial = k >= 2")
EXHAUSTIVE = {"quick": False, "thorough": False}
CHUNK = 256


def cases(tier, rng):
    kmax = 5 if tier == "quick" else 7
    for k in range(1, kmax + 1):
        for v in range(4 ** k):
            yield {"kind": "vertex", "k": k, "v": v, "nt": k >= 2}
    for k in range(8, 13):
        for _ in range(200 if tier == "quick" else 4000):
            yield {"kind": "vertex", "k": k, "v": rng.randrange(4 ** k), "nt": True}
    for k in range(1, 5 if tier == "quick" else 7):
        yield {"kind": "complete", "k": k, "nt": True}
    # 'every graph the library builds or converts holds in column j either -1 or that successor': generation (valid / coding graph) and the
    # conversions (latter map, adjacency matrix) on seeded masks / arc subsets
    for k in (1, 2, 3):
        for _ in range(12 if tier == "quick" else 120):
            yield {"kind": "built", "k": k, "seed": rng.getrandbits(32), "nt": True}


def check(case):
    from dsw import obtain_latters, obtain_formers, get_complete_accessor, dna_to_number, number_to_dna
    fails = []
    k = case["k"]
    if case["kind"] == "complete":
        r = outcome(get_complete_accessor, k, limit=120)
        ok = r[0] == "ok" and r[1].shape == (4 ** k, 4) and all(
            int(r[1][v][j]) == S.val4(S.kmer(v, k)[1:] + S.NUC[j]) for v in range(4 ** k) for j in range(4))
        if not ok:
            fails.append(("get_complete_accessor", f"get_complete_accessor({k}) is not the shift-append table"))
        return fails
    if case["kind"] == "built":
        import random
        import numpy
        from dsw import (connect_valid_graph, connect_coding_graph, accessor_to_latter_map, latter_map_to_accessor, accessor_to_adjacency_matrix,
                         adjacency_matrix_to_accessor)
        r = random.Random(case["seed"])
        n = 4 ** k

        def shift_table(tag, acc):
            ok = getattr(acc, "shape", None) == (n, 4) and all(int(acc[v][j]) in (-1, S.succ(v, j, k)) for v in range(n) for j in range(4))
            if not ok:
                fails.append(("built:" + tag, f"k={k} seed={case['seed']}: {tag} holds an entry that is neither -1 nor the j-th shift successor"))
            return ok
        mask = numpy.array([1 if r.random() < 0.7 else 0 for _ in range(n)])
        g = outcome(connect_valid_graph, k, mask)
        if g[0] == "ok":
            shift_table("connect_valid_graph", g[1])
        for t in (1, 2):
            g = outcome(connect_coding_graph, k, mask.copy(), t)
            if g[0] == "ok":
                shift_table(f"connect_coding_graph(t={t})", g[1][1])
        sub = numpy.array([[S.succ(v, j, k) if r.random() < 0.6 else -1 for j in range(4)] for v in range(n)])
        lm = outcome(accessor_to_latter_map, sub.copy())
        if lm[0] == "ok":
            back = outcome(latter_map_to_accessor, lm[1], k)
            if back[0] == "ok" and shift_table("latter_map_to_accessor", back[1]) and not (back[1] == sub).all():
                fails.append(("built:latter_map_roundtrip", f"k={k} seed={case['seed']}: accessor -> latter map -> accessor differs"))
            # the same graph handed over as a caller-built latter map: keys and follow-up lists in another order (the column is the successor's last
            # nucleotide, not its position in the list)
            scr = {int(a): [int(x) for x in reversed(b)] for a, b in reversed(list(lm[1].items()))}
            back = outcome(latter_map_to_accessor, scr, k)
            if back[0] != "ok" or not shift_table("latter_map_to_accessor(caller-built map)", back[1]) or not (back[1] == sub).all():
                fails.append(("built:latter_map_any_order", f"k={k} seed={case['seed']}: a latter map listing the same arcs in another order converts to a different accessor"))
            trimmed = outcome(latter_map_to_accessor, lm[1], k, threshold=2)
            if trimmed[0] == "ok":
                shift_table("latter_map_to_accessor(threshold=2)", trimmed[1])
        mx = outcome(accessor_to_adjacency_matrix, sub.copy())
        if mx[0] == "ok":
            back = outcome(adjacency_matrix_to_accessor, mx[1])
            if back[0] == "ok":
                shift_table("adjacency_matrix_to_accessor", back[1])
        return fails
    v = case["v"]
    s = S.kmer(v, k)
    a = outcome(number_to_dna, v, k)
    if a != ("ok", s):
        fails.append(("number_to_dna:int", f"number_to_dna({v}, {k}) -> {a!r}, expected {s!r}"))
    b = outcome(dna_to_number, s, False)
    if b != ("ok", v):
        fails.append(("dna_to_number:int", f"dna_to_number({s!r}, False) -> {b!r}, expected {v}"))
    lat = outcome(obtain_latters, v, k)
    want = [S.val4(s[1:] + c) for c in S.NUC]
    if lat[0] != "ok" or [int(x) for x in lat[1]] != want:
        fails.append(("obtain_latters", f"obtain_latters({v}, {k}) -> {lat!r}, expected {want}"))
    frm = outcome(obtain_formers, v, k)
    want = [S.val4(c + s[:-1]) for c in S.NUC]
    if frm[0] != "ok" or [int(x) for x in frm[1]] != want:
        fails.append(("obtain_formers", f"obtain_formers({v}, {k}) -> {frm!r}, expected {want}"))
    if not fails:
        for u in frm[1]:
            if v not in obtain_latters(int(u), k):
                fails.append(("duality", f"{u} in formers({v}) but {v} not in latters({u})"))
        for w in lat[1]:
            if v not in obtain_formers(int(w), k):
                fails.append(("duality", f"{w} in latters({v}) but {v} not in formers({w})"))
    return fails
