"""B2 — enumerated run-time contract checking of the REAL functions (bounded stand-in, never a proof).

Runs under the interpreter of the test-suite (/venv/bin/python) with PYTHONPATH=$REPO:/verif.
A driver module defines
    cases(tier, rng)  -> iterator of JSON-serialisable case dicts (key "nt": non-trivial by the driver's rule)
    check(case)       -> list of (fingerprint, message) failures; [] when the contract held
    RULE              -> text: how cases are enumerated and what makes one non-trivial
    EXHAUSTIVE        -> {tier: bool}
"""
import json
import os
import random
import signal
import sys
import time
import traceback
from contextlib import contextmanager


class Timeout(Exception):
    pass


@contextmanager
def time_limit(seconds):
    def handler(signum, frame):
        raise Timeout()
    old = signal.signal(signal.SIGALRM, handler)
    signal.setitimer(signal.ITIMER_REAL, seconds)
    try:
        yield
    finally:
        signal.setitimer(signal.ITIMER_REAL, 0)
        signal.signal(signal.SIGALRM, old)


def outcome(fn, *args, limit=20.0, **kwargs):
    """('ok', value) | ('raise', 'ExcType', text) | ('timeout',)  -- of the real function."""
    try:
        with time_limit(limit):
            return ("ok", fn(*args, **kwargs))
    except Timeout:
        return ("timeout",)
    except BaseException as e:  # noqa
        if isinstance(e, (KeyboardInterrupt, SystemExit)):
            raise
        return ("raise", type(e).__name__, str(e)[:200])


def jsonable(x):
    try:
        import numpy
        if isinstance(x, numpy.ndarray):
            return x.tolist()
        if isinstance(x, numpy.generic):
            return x.item()
    except ImportError:
        pass
    if isinstance(x, dict):
        return {str(k): jsonable(v) for k, v in x.items()}
    if isinstance(x, (list, tuple, set)):
        return [jsonable(v) for v in x]
    return x


def _work(args):
    modname, case = args
    mod = __import__("bounded." + modname, fromlist=["check"])
    try:
        fails = mod.check(case)
    except Timeout:
        fails = [("driver-timeout", "driver timed out")]
    except Exception:
        fails = [("driver-crash", traceback.format_exc()[-1500:])]
    return case, fails


def run_driver(modname, tier, seed, max_fail=40, procs=None):
    mod = __import__("bounded." + modname, fromlist=["check"])
    rng = random.Random(seed)
    t0 = time.time()
    evaluations = 0
    nontrivial = set()
    samples = []
    failures = []
    crashed = []
    procs = procs or int(os.environ.get("VERIF_PROCS", "16"))
    gen = ((modname, c) for c in mod.cases(tier, rng))
    if procs > 1:
        import multiprocessing
        ctx = multiprocessing.get_context("fork")
        pool = ctx.Pool(procs)
        it = pool.imap_unordered(_work, gen, chunksize=getattr(mod, "CHUNK", 8))
    else:
        pool = None
        it = map(_work, gen)
    try:
        for case, fails in it:
            evaluations += 1
            key = json.dumps(case, sort_keys=True, default=str)
            if case.get("nt", True):
                nontrivial.add(hash(key))
            if len(samples) < 3 or (evaluations % 997 == 0 and len(samples) < 8):
                samples.append(case)
            for fp, msg in fails:
                if fp in ("driver-crash", "driver-timeout"):
                    crashed.append({"case": case, "message": msg})
                elif len(failures) < max_fail or all(f["fingerprint"] != fp for f in failures):
                    failures.append({"fingerprint": fp, "message": msg, "case": case})
    finally:
        if pool is not None:
            pool.terminate()
            pool.join()
    return {
        "driver": modname, "tier": tier, "seed": seed,
        "evaluations": evaluations, "distinct_nontrivial": len(nontrivial),
        "rule": mod.RULE, "exhaustive": bool(getattr(mod, "EXHAUSTIVE", {}).get(tier, False)),
        "samples": samples[:8], "failures": failures, "crashed": crashed[:5],
        "wall_s": round(time.time() - t0, 2),
    }


def main():
    import argparse
    ap = argparse.ArgumentParser()
    ap.add_argument("driver")
    ap.add_argument("--tier", default="quick")
    ap.add_argument("--seed", type=int, default=0)
    ap.add_argument("--replay")
    ap.add_argument("--out")
    a = ap.parse_args()
    if a.replay:
        mod = __import__("bounded." + a.driver, fromlist=["check"])
        rec = json.load(open(a.replay))
        case = rec.get("case", rec)
        fails = mod.check(case)
        res = {"driver": a.driver, "replay": a.replay, "failures": [{"fingerprint": f, "message": m, "case": case} for f, m in fails]}
    else:
        res = run_driver(a.driver, a.tier, a.seed)
    txt = json.dumps(jsonable(res), default=str)
    if a.out:
        open(a.out, "w").write(txt)
    else:
        sys.stdout.write(txt + "\n")


if __name__ == "__main__":
    main()
