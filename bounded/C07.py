"""C07 bounded stand-in: set_vt is the documented VT function and sees every single substitution / CGT indel."""
import itertools

from contracts import specs as S
from bounded.common import outcome
from bounded import gen

RULE = ("strands: all over ACGT of length 0..6 (quick) / 0..8 (thorough) + seeded up to 300 nt; check lengths 1..4 (+ 7, 12 on seeded "
        "ones; + 32, 33, 34, 40, 70 - at and beyond the 64-bit boundary 4^(n-1) >= 2^63 - on a few strands): set_vt == vt_spec, length n; every single substitution and every single insertion/deletion of C, G or T at every position "
        "changes the check; decode with the original check rejects (complete order-1/2 graph, where every strand is a walk); "
        "non-trivial = strand length >= 2")
EXHAUSTIVE = {"quick": False, "thorough": False}
CHUNK = 32


def cases(tier, rng):
    for n in range(0, 7 if tier == "quick" else 9):
        for t in itertools.product("ACGT", repeat=n):
            yield {"s": "".join(t), "ns": [1, 2, 3, 4] if n <= 5 else [1, 3], "nt": n >= 2}
    for s_ in ("", "A", "ACGT", "TCTCTCT", "ACGTACGGTCAACGTTTGCA"):
        yield {"s": s_, "ns": [32, 33, 34, 40, 70], "nt": len(s_) >= 2}
    for _ in range(60 if tier == "quick" else 1500):
        n = rng.randint(7, 300)
        yield {"s": "".join(rng.choice("ACGT") for _ in range(n)), "ns": [1, 2, 4, 7, 12], "nt": True}


def check(case):
    from dsw import set_vt, decode
    s = case["s"]
    fails = []
    acc = gen.complete(1)
    for n in case["ns"]:
        o = outcome(set_vt, s, n)
        want = S.vt_spec(s, n)
        if o != ("ok", want):
            fp = "set_vt:empty-strand" if (s == "" and n < 32) else "set_vt:value"
            fails.append((fp, f"set_vt({s!r}, {n}) -> {o!r}, documented value {want!r}"))
            continue
        chk = o[1]
        edits = []
        for p in range(len(s)):
            for c in "ACGT":
                if c != s[p]:
                    edits.append(("S", s[:p] + c + s[p + 1:]))
            if s[p] in "CGT":
                edits.append(("D", s[:p] + s[p + 1:]))
        for p in range(len(s) + 1):
            for c in "CGT":
                edits.append(("I", s[:p] + c + s[p:]))
        if len(s) > 40:
            edits = edits[:: max(1, len(edits) // 200)]
        for kind, e in edits:
            o2 = outcome(set_vt, e, n)
            if o2[0] != "ok" or o2[1] == chk:
                fp = "edit:empty-strand" if e == "" else f"edit:{kind}:unseen"
                fails.append((fp, f"check {chk!r} of {s!r} (n={n}) vs edited {e!r}: {o2!r}"))
                break
            d = outcome(decode, e, 2 * len(e) + 2, acc, 0, vt_check=chk)
            if d[0] != "raise" or d[1] != "ValueError":
                fails.append((f"edit:{kind}:decode-accepts", f"decode({e!r}, vt_check={chk!r}) -> {d!r}"))
                break
    o = outcome(set_vt, s + "N", 2)
    if o[0] != "raise" or o[1] != "ValueError":
        fails.append(("set_vt:foreign", f"set_vt({s + 'N'!r}, 2) -> {o!r}"))
    return fails
