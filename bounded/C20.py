"""C20 bounded stand-in: calls are stateless and never modify their arguments; verbose never changes a result."""
import contextlib
import copy
import io
import pickle
import random

import numpy

from contracts import specs as S
from bounded.common import outcome
from bounded import gen

RULE = ("seeded histories of 30 (quick) / 120 (thorough) interleaved calls on SHARED arguments (graph, message, table, mask, latter map, "
        "filter) drawn from 24 call shapes covering encode, decode, set_vt, repair_dna, find_vertices, connect_valid_graph, "
        "connect_coding_graph, create_random_shuffles, the four conversions, obtain_*, remove_useless, approximate_capacity, "
        "calculate_intersection_score, path_matching, the calculus_* and number conversions; every call: arguments bit-for-bit equal to a "
        "pickled snapshot taken before, result equal to the result of the same call made first in a fresh interpreter state (thorough: in a "
        "fresh subprocess) and equal with verbose on (stdout discarded); plus the progress monitor on its whole contract domain (current == 0 or total != 0, "
        "0..6) and approximate_capacity with 0..3 iterations, silent versus verbose; non-trivial = every history")
EXHAUSTIVE = {"quick": False, "thorough": False}
CHUNK = 1


def cases(tier, rng):
    yield {"kind": "monitor", "nt": True}
    yield {"kind": "capacity-boundary", "nt": True}
    for i in range(48 if tier == "quick" else 200):
        yield {"seed": rng.getrandbits(32), "calls": 30 if tier == "quick" else 120, "cfg": i % len(gen.FILTER_GRID),
               "subprocess": tier != "quick" and i % 10 == 0, "nt": True}


def snap(x):
    def norm(v):
        if isinstance(v, numpy.ndarray):
            return ("nd", str(v.dtype), v.shape, v.tobytes())
        if isinstance(v, dict):
            return ("dict", [(norm(a), norm(b)) for a, b in v.items()])
        if isinstance(v, (list, tuple)):
            return (type(v).__name__, [norm(a) for a in v])
        if hasattr(v, "__dict__") and not callable(v):
            return ("obj", type(v).__name__, norm(vars(v)))
        if isinstance(v, numpy.generic):
            return ("np", v.item())
        return v
    return norm(x)


def build(seed, cfg_index):
    import dsw
    r = random.Random(seed)
    cfg = gen.FILTER_GRID[cfg_index]
    k = cfg[0]
    flt = gen.make_filter(cfg)
    gg = gen.generated_graph(cfg_index, 2) or gen.generated_graph(0, 2)
    if gg is None or gen.FILTER_GRID[cfg_index][0] != k:
        k = 2
    mask, starts, acc = gg
    mask = numpy.array(mask).astype(int)
    acc = acc.copy()
    k = S.order_of(len(acc))
    table = gen.random_table(r, k)
    bits = numpy.array([r.randint(0, 1) for _ in range(24)], dtype=int)
    lm = dsw.accessor_to_latter_map(acc)
    start = starts[0]
    strand = S.ref_encode(S.val2(bits.tolist()), acc.tolist(), start, None)
    bad = strand[:k + 1] + S.NUC[(S.code(strand[k + 1]) + 1) % 4] + strand[k + 2:] if len(strand) > 3 * k + 3 else strand
    shared = dict(k=k, flt=flt, mask=mask, acc=acc, table=table, bits=bits, lm=lm, start=start, strand=strand, bad=bad,
                  digits="9307", number=12345)
    return shared


def call_shapes(sh):
    import dsw
    k = sh["k"]
    V = ("verbose",)
    return [
        ("encode", dsw.encode, (sh["bits"], sh["acc"], sh["start"]), {}, V),
        ("encode-table-vt", dsw.encode, (sh["bits"], sh["acc"], sh["start"]), {"shuffles": sh["table"], "vt_length": 3, "need_path": True}, V),
        ("decode", dsw.decode, (sh["strand"], len(sh["bits"]), sh["acc"], sh["start"]), {}, V),
        ("decode-table", dsw.decode, (S.ref_encode(S.val2(sh["bits"].tolist()), sh["acc"].tolist(), sh["start"], sh["table"].tolist()),
                                      len(sh["bits"]), sh["acc"], sh["start"]), {"shuffles": sh["table"]}, V),
        ("set_vt", dsw.set_vt, (sh["strand"], 4), {}, ()),
        ("repair", dsw.repair_dna, (sh["bad"], sh["acc"], sh["start"], k), {"has_indel": True}, ()),
        ("find_vertices", dsw.find_vertices, (k, sh["flt"]), {}, V),
        ("valid_graph", dsw.connect_valid_graph, (k, sh["mask"]), {}, V),
        ("coding_graph2", dsw.connect_coding_graph, (k, sh["mask"], 2), {}, V),
        ("coding_graph1", dsw.connect_coding_graph, (k, sh["mask"], 1), {}, V),
        ("shuffles", dsw.create_random_shuffles, (k, 11), {}, V),
        ("to_latter_map", dsw.accessor_to_latter_map, (sh["acc"],), {}, V),
        ("from_latter_map", dsw.latter_map_to_accessor, (sh["lm"], k), {}, V),
        ("from_latter_map_trim", dsw.latter_map_to_accessor, (sh["lm"], k), {"threshold": 3}, V),
        ("to_matrix", dsw.accessor_to_adjacency_matrix, (sh["acc"],), {}, V),
        ("remove_useless", dsw.remove_useless, (sh["lm"], 3), {}, V),
        ("vertices", dsw.obtain_vertices, (sh["acc"],), {}, ()),
        ("leaves", dsw.obtain_leaf_vertices, (sh["start"], 3), {"accessor": sh["acc"]}, ()),
        ("leaves_lm", dsw.obtain_leaf_vertices, (sh["start"], 3), {"latter_map": sh["lm"]}, ()),
        ("capacity", dsw.approximate_capacity, (sh["acc"],), {}, V),
        ("scores", dsw.calculate_intersection_score, (sh["lm"], k), {}, V),
        ("path_matching", dsw.path_matching, (sh["bad"][: 2 * k + 1], sh["acc"], sh["start"], min(k, len(sh["bad"]) - 1) if sh["bad"] else 0), {"has_indel": True}, ()),
        ("bit_to_number", dsw.bit_to_number, (sh["bits"],), {}, V),
        ("number_to_bit", dsw.number_to_bit, (sh["digits"], 20), {}, ()),
    ]


def same(a, b):
    return pickle.dumps(snap(a)) == pickle.dumps(snap(b))


def run_call(shape, verbose=False):
    name, fn, args, kwargs, flags = shape
    kw = dict(kwargs)
    if verbose and "verbose" in flags:
        kw["verbose"] = True
    buf = io.StringIO()
    with contextlib.redirect_stdout(buf):
        return outcome(fn, *args, limit=60, **kw)


def check(case):
    fails = []
    if case.get("kind") == "monitor":
        # the progress monitor on its whole contract domain (current == 0 or total != 0; pyvc assumes exactly this contract at every call site)
        from dsw import Monitor
        for cur in range(0, 7):
            for tot in range(0, 7):
                if cur == 0 or tot != 0:
                    buf = io.StringIO()
                    with contextlib.redirect_stdout(buf):
                        o = outcome(Monitor(), cur, tot)
                        o2 = outcome(Monitor(), cur, tot, extra={"valid": cur})
                    for o_ in (o, o2):
                        if o_ != ("ok", None):
                            fails.append(("monitor:raises-or-returns", f"Monitor()({cur}, {tot}) -> {o_!r} (progress output must neither raise nor return a value)"))
        return fails
    if case.get("kind") == "capacity-boundary":
        import dsw
        acc = gen.complete(2)
        for kw in ({"maximum_iteration": 0}, {"maximum_iteration": 1}, {"maximum_iteration": 3}, {"repeats": 2, "maximum_iteration": 2}, {"process": True, "maximum_iteration": 2}):
            res = []
            for verbose in (False, True):
                buf = io.StringIO()
                with contextlib.redirect_stdout(buf):
                    random.seed(5)
                    numpy.random.seed(5)
                    res.append(outcome(dsw.approximate_capacity, acc, verbose=verbose, limit=60, **kw))
            if not same(res[0], res[1]):
                fails.append(("result-depends-on-verbose:capacity-boundary", f"approximate_capacity(complete order-2 graph, {kw}): silent {str(res[0])[:120]} vs verbose {str(res[1])[:120]}"))
        return fails
    sh = build(case["seed"], case["cfg"])
    shapes = call_shapes(sh)
    r = random.Random(case["seed"] ^ 0x5A5A)
    pristine = build(case["seed"], case["cfg"])
    first = {}
    for shape in call_shapes(pristine):           # reference results: each call made once on private, equal arguments
        first[shape[0]] = run_call(shape)
    if case.get("subprocess"):
        import subprocess, sys, os, json
        code = ("import sys,pickle;sys.path[:0]=%r;from bounded import C20;sh=C20.build(%d,%d);"
                "out={s[0]:C20.snap(C20.run_call(s)) for s in C20.call_shapes(sh)};sys.stdout.buffer.write(pickle.dumps(out))"
                % ([p for p in sys.path if p], case["seed"], case["cfg"]))
        p = subprocess.run([sys.executable, "-c", code], capture_output=True, timeout=300)
        if p.returncode == 0:
            fresh = pickle.loads(p.stdout)
            for name, res in first.items():
                if name != "capacity" and pickle.dumps(fresh[name]) != pickle.dumps(snap(res)):
                    fails.append((f"fresh-process:{name}", f"seed={case['seed']}: {name} differs between this process and a fresh one"))
    for step in range(case["calls"]):
        shape = r.choice(shapes)
        name = shape[0]
        before = pickle.dumps(snap((shape[2], shape[3])))
        verbose = r.random() < 0.4
        res = run_call(shape, verbose=verbose)
        after = pickle.dumps(snap((shape[2], shape[3])))
        if before != after:
            fails.append((f"argument-modified:{name}", f"seed={case['seed']} step {step}: {name} modified one of its arguments"))
            return fails
        if not same(res, first[name]):
            why = "verbose" if verbose else "history"
            fails.append((f"result-depends-on-{why}:{name}", f"seed={case['seed']} step {step}: {name}(verbose={verbose}) -> {str(res)[:150]}, first call gave {str(first[name])[:150]}"))
            return fails
    return fails
