"""C05/C01/C04/C06 share this file's helpers.  C05 bounded stand-in: strand = documented mixed-radix walk."""
import random

import numpy

from contracts import specs as S
from bounded.common import outcome
from bounded import gen

RULE = ("graphs: seeded well-formed arc subsets of order 1..3 (out-degrees 1..4 mixed; without out-degree 3 for the fast mode), the "
        "doc-string graph, complete graphs; x 3 start vertices x messages (all of length 0..6 on the first graphs, seeded up to 120 bits, "
        "all-zero, leading zeros, odd lengths) x {no table, random permutation table} x {normal, fast}: encode == integer reference "
        "coder; decode(walk) == big-endian value of the digit sequence at width L whenever it fits; non-trivial = strand length >= 2")
EXHAUSTIVE = {"quick": False, "thorough": False}
CHUNK = 4


def graph_of(case):
    r = random.Random(case["gseed"])
    kind = case["graph"]
    if kind == "doc":
        return gen.doc_graph(), 2
    if kind == "complete":
        return gen.complete(case["k"]), case["k"]
    acc, _ = gen.random_wf_graph(r, case["k"], allow3=not case.get("no3", False))
    return acc, case["k"]


def graph_cases(tier, rng):
    out = [{"graph": "doc", "k": 2, "gseed": 0}, {"graph": "complete", "k": 1, "gseed": 0}, {"graph": "complete", "k": 2, "gseed": 0}]
    for k in (1, 2, 3):
        for _ in range(4 if tier == "quick" else 40):
            out.append({"graph": "random", "k": k, "gseed": rng.getrandbits(32)})
            out.append({"graph": "random", "k": k, "gseed": rng.getrandbits(32), "no3": True})
    return out


def cases(tier, rng):
    for g in graph_cases(tier, rng):
        for rep in range(6 if tier == "quick" else 16):
            c = dict(g)
            c.update({"mseed": rng.getrandbits(32), "nt": True})
            yield c


def messages(r, small):
    import itertools
    out = []
    if small:
        for n in range(0, 7):
            out += [list(b) for b in itertools.product((0, 1), repeat=n)]
    for _ in range(12):
        n = r.randint(1, 120)
        out.append([r.randint(0, 1) for _ in range(n)])
    out += [[0] * 9, [0, 0, 0, 1], [1] * 33, [0, 0, 1, 0, 1, 1, 1]]
    return out


def check(case):
    from dsw import encode, decode
    acc, k = graph_of(case)
    r = random.Random(case["mseed"])
    n = 4 ** k
    fails = []
    table = gen.random_table(r, k)
    no3 = all(len(S.live(acc, v)) != 3 for v in range(n))
    starts = [v for v in r.sample(range(n), min(3, n)) if S.wf_graph(acc, v)]
    for start in starts:
        for bits in messages(r, small=(case["mseed"] % 3 == 0)):
            m = S.val2(bits)
            for sh in (None, table):
                tag = f"{case['graph']} k={k} gseed={case['gseed']} start={start} bits={bits} table={'yes' if sh is not None else 'no'}"
                want = S.ref_encode(m, acc, start, sh)
                o = outcome(encode, numpy.array(bits, dtype=int), acc, start, shuffles=sh)
                if o != ("ok", want):
                    fails.append(("encode:normal", f"{tag}: encode -> {o!r}, reference {want!r}"))
                # decode of the reference walk: value of its digits at width L
                L = len(bits)
                d = outcome(decode, want, L, acc, start, shuffles=sh)
                val = S.mixed_value(S.walk_digits(acc, start, want, sh))
                if val < 2 ** L:
                    if d[0] != "ok" or [int(x) for x in d[1]] != S.render(val, L, 2):
                        fails.append(("decode:normal", f"{tag}: decode({want!r}) -> {d!r}, expected value {val} at width {L}"))
                if no3:
                    wantf = S.ref_encode_fast(bits, acc, start, sh)
                    o = outcome(encode, numpy.array(bits, dtype=int), acc, start, is_faster=True, shuffles=sh)
                    if o != ("ok", wantf):
                        fp = "encode:fast:tail-at-4way" if (o[0] == "raise" and o[1] == "IndexError") else "encode:fast"
                        fails.append((fp, f"{tag}: fast encode -> {o!r}, reference {wantf!r}"))
                    cells = S.fast_bits_of_walk(acc, start, wantf, sh)
                    d = outcome(decode, wantf, L, acc, start, is_faster=True, shuffles=sh)
                    wantbits = (cells + [0] * L)[:L]
                    if d[0] != "ok" or [int(x) for x in d[1]] != wantbits:
                        fp = "decode:fast:tail-at-4way" if (d[0] == "raise" and d[1] == "IndexError" and len(cells) == L + 1) else "decode:fast"
                        fails.append((fp, f"{tag}: fast decode({wantf!r}) -> {d!r}, expected {wantbits}"))
                if len(fails) > 6:
                    return fails
    # arbitrary walks (not produced by encode): decode reads the digit value
    for _ in range(30):
        start = r.randrange(n)
        w = gen.random_walk(r, acc, start, r.randint(0, 14))
        if w is None:
            continue
        for sh in (None, table):
            val = S.mixed_value(S.walk_digits(acc, start, w, sh))
            L = max(val.bit_length(), 1) + r.randint(0, 3)
            d = outcome(decode, w, L, acc, start, shuffles=sh)
            if d[0] != "ok" or [int(x) for x in d[1]] != S.render(val, L, 2):
                fails.append(("decode:walk", f"{case['graph']} k={k} gseed={case['gseed']} start={start} walk={w!r}: decode -> {d!r}, expected value {val} at width {L}"))
    return fails
