"""C19 bounded stand-in: arc removal keeps accessor and latter map in step over any call sequence."""
import copy
import random

import numpy

from contracts import specs as S
from bounded.common import outcome
from bounded import gen

RULE = ("generated graphs (filter grid with k <= 3 at t = 1, 2 + seeded order-2 masks at t = 1..2; order 4 thorough) x 4 insertion/deletion flag "
        "settings; remove_nasty_arc called repeatedly (<= 12 quick / until the first raise, <= 60 thorough); after every call: exactly "
        "one accessor entry changed, from a live successor to -1, it carries the maximum of calculate_intersection_score computed on a copy "
        "before the call, the latter map lost exactly that successor, accessor and latter map describe the same graph, the returned "
        "objects are the ones passed in; scores have the accessor's shape, are >= 0, positive only on arcs and equal the set-based restatement of the "
        "scoring scheme (contracts/specs.py intersection_scores); every grid graph is also run as an UNDISTURBED history (`pure`): no other library call "
        "between two removals, the maximum taken from the independent restatement of the scheme - a result that depends on what an earlier call left "
        "behind shows there; non-trivial = >= 2 calls returned")
EXHAUSTIVE = {"quick": False, "thorough": False}
CHUNK = 1


def cases(tier, rng):
    for i, cfg in enumerate(gen.FILTER_GRID):
        if cfg[0] <= (3 if tier == "quick" else 4):
            for t in (1, 2):
                for flags in ((True, True), (True, False), (False, True), (False, False)):
                    yield {"src": "grid", "cfg": i, "t": t, "flags": list(flags), "nt": True}
                if t == 2:
                    yield {"src": "grid", "cfg": i, "t": t, "flags": [True, True], "pure": True, "steps": 20, "nt": True}
    for _ in range(40 if tier == "quick" else 300):
        yield {"src": "mask", "mask": rng.getrandbits(16) | rng.getrandbits(16), "t": rng.choice((1, 2)),
               "flags": [rng.random() < 0.5, rng.random() < 0.5], "nt": True}


def check(case):
    from dsw import remove_nasty_arc, accessor_to_latter_map, calculate_intersection_score, connect_coding_graph
    fails = []
    if case["src"] == "grid":
        gg = gen.generated_graph(case["cfg"], case["t"])
        if gg is None:
            return fails
        acc = gg[2].copy()
        k = gen.FILTER_GRID[case["cfg"]][0]
    else:
        k = 2
        bits = [(case["mask"] >> i) & 1 for i in range(16)]
        g = outcome(connect_coding_graph, 2, numpy.array(bits), case["t"])
        if g[0] != "ok":
            return fails
        acc = g[1][1].copy()
    ins, dele = case["flags"]
    lm = accessor_to_latter_map(acc)
    tag = f"{case}"
    steps = case.get("steps", 12)
    for step in range(steps):
        before = acc.copy()
        lm_before = copy.deepcopy(lm)
        ref = S.intersection_scores({int(a): [int(x) for x in b] for a, b in lm.items()}, k, ins, dele)
        if case.get("pure"):
            scores = numpy.array(ref)          # undisturbed history: the library is not called between two removals
        else:
            sc = outcome(calculate_intersection_score, copy.deepcopy(lm), k, ins, dele, limit=60)
            if sc[0] != "ok":
                fails.append(("scores:raises", f"{tag} step {step}: calculate_intersection_score -> {sc[:2]!r}"))
                return fails
            scores = sc[1]
        if scores.tolist() != ref:
            fails.append(("scores:scheme", f"{tag} step {step}: intersection scores differ from the set-based restatement of the scoring scheme"))
            return fails
        if scores.shape != before.shape or (scores < 0).any() or ((scores > 0) & (before < 0)).any():
            fails.append(("scores:shape-or-sign", f"{tag} step {step}: scores not of the accessor's shape / positive off an arc"))
        r = outcome(remove_nasty_arc, acc, lm, 0, ins, dele, limit=60)
        if r[0] != "ok":
            break                  # a call that raises ends the history
        acc2, lm2, (former, latter), _ = r[1]
        if acc2 is not acc or lm2 is not lm:
            fails.append(("identity", f"{tag} step {step}: arc removal handed back different objects"))
            acc, lm = acc2, lm2
        diff = [(int(v), int(j)) for v, j in zip(*numpy.where(acc != before))]
        if len(diff) != 1:
            fails.append(("one-entry", f"{tag} step {step}: {len(diff)} accessor entries changed: {diff[:6]}"))
            break
        v, j = diff[0]
        if before[v][j] < 0 or acc[v][j] != -1 or int(former) != v or int(latter) != int(before[v][j]):
            fails.append(("existing-arc", f"{tag} step {step}: entry ({v},{j}) {before[v][j]} -> {acc[v][j]}, reported arc {former}->{latter}"))
        if scores[v][j] != scores.max():
            fails.append(("maximum-score", f"{tag} step {step}: removed arc ({v},{j}) has score {scores[v][j]}, maximum is {scores.max()}"))
        want_lm = S.latter_map_spec(acc.tolist())
        got_lm = {int(a): [int(x) for x in b] for a, b in lm.items()}
        if got_lm != want_lm:
            fails.append(("views-in-step", f"{tag} step {step}: latter map and accessor describe different graphs"))
            break
        exp = {int(a): [int(x) for x in b] for a, b in lm_before.items()}
        exp[v] = [x for x in exp[v] if x != int(before[v][j])]
        if not exp[v]:
            del exp[v]
        if got_lm != exp:
            fails.append(("latter-map-frame", f"{tag} step {step}: latter map changed beyond the removed successor"))
    return fails
