"""C01 bounded stand-in: decode(encode(m)) == m, all modes, tables and check lengths."""
import random

import numpy

from contracts import specs as S
from bounded.common import outcome
from bounded import gen
from bounded.C05 import graph_of, graph_cases, messages

RULE = ("graphs and messages as in C05 (well-formed arc subsets of order 1..3, doc-string graph, complete graphs; all messages of "
        "length 0..6 + seeded up to 120 bits incl. empty, all-zero, leading zeros, odd lengths) x {no table, table} x {normal, fast "
        "(graphs without out-degree 3)} x check length 0 (none), 1..5; non-trivial = message has >= 2 bits")
EXHAUSTIVE = {"quick": False, "thorough": False}
CHUNK = 4


def cases(tier, rng):
    for g in graph_cases(tier, rng):
        for rep in range(6 if tier == "quick" else 16):
            c = dict(g)
            c.update({"mseed": rng.getrandbits(32), "nt": True})
            yield c


def check(case):
    from dsw import encode, decode
    acc, k = graph_of(case)
    r = random.Random(case["mseed"])
    n = 4 ** k
    fails = []
    table = gen.random_table(r, k)
    no3 = all(len(S.live(acc, v)) != 3 for v in range(n))
    starts = [v for v in r.sample(range(n), min(3, n)) if S.wf_graph(acc, v)]
    for start in starts:
        for bits in messages(r, small=(case["mseed"] % 3 == 0)):
            for fast in ((False, True) if no3 else (False,)):
                for sh in (None, table):
                    vt = r.choice((0, 0, 1, 2, 3, 5))
                    tag = (f"{case['graph']} k={k} gseed={case['gseed']} start={start} bits={bits} fast={fast} "
                           f"table={'yes' if sh is not None else 'no'} vt_length={vt}")
                    e = outcome(encode, numpy.array(bits, dtype=int), acc, start, is_faster=fast, vt_length=vt, shuffles=sh)
                    if e[0] != "ok":
                        fp = "encode:raises:" + (e[1] if e[0] == "raise" else "timeout")
                        if vt > 0 and e[0] == "raise" and e[1] == "TypeError" and not any(bits) and not fast:
                            fp = "encode:empty-strand-check"
                        fails.append((fp, f"{tag}: encode -> {e!r}"))
                        continue
                    strand, chk = (e[1] if vt > 0 else (e[1], None))
                    d = outcome(decode, strand, len(bits), acc, start, is_faster=fast, vt_check=chk, shuffles=sh)
                    if d[0] != "ok" or [int(x) for x in d[1]] != list(bits) or len(d[1]) != len(bits):
                        fp = "roundtrip:" + ("fast" if fast else "normal") + (":raises:" + d[1] if d[0] == "raise" else "")
                        fails.append((fp, f"{tag}: strand {strand!r} check {chk!r} decodes to {d!r}"))
                    if len(fails) > 6:
                        return fails
    return fails
