"""C18 bounded stand-in: shuffle tables are reproducible per-vertex permutations; induced digit map is a bijection."""
import itertools

import numpy

from contracts import specs as S
from bounded.common import outcome
from bounded import gen

RULE = ("create_random_shuffles: k = 1..4 (quick) / 1..6 (thorough) x seeds {0, 1, 7, 2021, VERIF_SEED-derived}: shape (4^k, 4), rows are "
        "permutations, two calls with the same seed agree, the doc-string table for (k=2, seed=2021) when it is the documented one; digit map: all "
        "24 permutation rows x all 15 non-empty live-arc patterns on the order-1 graph, through the REAL decode/encode: digit -> arc is a "
        "bijection onto the live arcs, decode inverts encode, and a string is accepted with the table iff it is accepted without; "
        "non-trivial = pattern has >= 2 live arcs; shared table: ONE table object used by encode / decode (both modes) on two graphs with "
        "different live-arc patterns in turn (all ordered pairs of the 11 patterns with >= 2 live arcs x 24 rows): the table is bit-for-bit "
        "unchanged after every call and every call still selects the documented live arc")
EXHAUSTIVE = {"quick": True, "thorough": True}
CHUNK = 8


def cases(tier, rng):
    for k in range(1, 5 if tier == "quick" else 7):
        for seed in (0, 1, 7, 2021, rng.getrandbits(31)):
            yield {"kind": "table", "k": k, "seed": seed, "nt": True}
    for perm in itertools.permutations(range(4)):
        for pat in range(1, 16):
            yield {"kind": "digitmap", "perm": list(perm), "pattern": pat, "nt": bin(pat).count("1") >= 2}
    multi = [pat for pat in range(1, 16) if bin(pat).count("1") >= 2]
    for perm in itertools.permutations(range(4)):
        for p1 in multi:
            for p2 in multi:
                if p1 != p2:
                    yield {"kind": "shared", "perm": list(perm), "first": p1, "second": p2, "nt": True}


def check(case):
    from dsw import create_random_shuffles, encode, decode
    fails = []
    if case["kind"] == "table":
        k, seed = case["k"], case["seed"]
        a = outcome(create_random_shuffles, k, seed)
        b = outcome(create_random_shuffles, k, seed)
        if a[0] != "ok" or b[0] != "ok":
            fails.append(("table:raises", f"create_random_shuffles({k}, {seed}) -> {a[:2]!r}"))
            return fails
        t = a[1]
        if t.shape != (4 ** k, 4) or any(sorted(int(x) for x in row) != [0, 1, 2, 3] for row in t):
            fails.append(("table:permutations", f"create_random_shuffles({k}, {seed}): not one permutation row per vertex"))
        if t.tolist() != b[1].tolist():
            fails.append(("table:reproducible", f"create_random_shuffles({k}, {seed}) differs between two calls"))
        return fails
    if case["kind"] == "shared":
        perm = case["perm"]
        table = numpy.array([perm] * 4, dtype=int)
        pristine = table.tolist()
        for pat in (case["first"], case["second"]):
            lv = [j for j in range(4) if (pat >> j) & 1]
            acc = numpy.array([[j if j in lv else -1 for j in range(4)] for _ in range(4)], dtype=int)
            deg, v = len(lv), lv[0]
            tag = f"row={perm} patterns={case['first']:#x},{case['second']:#x} live={lv}"
            for fast in ((False, True) if deg in (2, 4) else (False,)):
                for digit in range(deg):
                    if fast:
                        w = 1 if deg == 2 else 2
                        bits = S.render(digit, w, 2) + S.render(digit, w, 2)
                    else:
                        bits = S.render(digit + deg, 4, 2)
                    e = outcome(encode, numpy.array(bits), acc, v, shuffles=table, is_faster=fast)
                    if table.tolist() != pristine:
                        fails.append(("shared:table-modified", f"{tag}: encode(fast={fast}) changed the caller's table to {table.tolist()[v]}"))
                        return fails
                    want = S.NUC[S.arc_of_digit(acc, numpy.array(pristine), v, digit)]
                    if e[0] != "ok" or len(e[1]) < 1 or e[1][0] != want or any(S.NUC.index(c) not in lv for c in e[1]):
                        fails.append(("shared:encode", f"{tag}: digit {digit} fast={fast} encodes to {e!r}, documented first arc {want!r} / not a walk"))
                        continue
                    d = outcome(decode, e[1], len(bits), acc, v, shuffles=table, is_faster=fast)
                    if table.tolist() != pristine:
                        fails.append(("shared:table-modified", f"{tag}: decode(fast={fast}) changed the caller's table"))
                        return fails
                    if d[0] != "ok" or [int(x) for x in d[1]] != bits:
                        fails.append(("shared:inverse", f"{tag}: fast={fast} decode(encode({bits})) -> {d!r}"))
        return fails
    perm, pat = case["perm"], case["pattern"]
    lv = [j for j in range(4) if (pat >> j) & 1]
    acc = numpy.array([[j if j in lv else -1 for j in range(4)] for _ in range(4)], dtype=int)   # order-1: succ(v,j)=j
    table = numpy.array([perm] * 4, dtype=int)
    deg = len(lv)
    v = lv[0]
    tag = f"row={perm} live={lv}"
    if deg >= 2:
        width = 2
        seen = {}
        for j in lv:
            d = outcome(decode, S.NUC[j], width, acc, v, shuffles=table)
            if d[0] != "ok":
                fails.append(("digitmap:decode-raises", f"{tag}: decode({S.NUC[j]!r}) -> {d!r}"))
                continue
            digit = int(d[1][0]) * 2 + int(d[1][1])
            seen[digit] = j
            want = S.digit_of_arc(acc, table, v, j)
            if digit != want:
                fails.append(("digitmap:decode", f"{tag}: arc {j} decodes to digit {digit}, documented rank {want}"))
        if sorted(seen) != list(range(deg)):
            fails.append(("digitmap:bijection", f"{tag}: digits {sorted(seen)} are not 0..{deg - 1}"))
        for digit in range(deg):
            m = digit + deg           # second digit 1 so that the strand has two nucleotides
            bits = S.render(m, 4, 2)
            e = outcome(encode, numpy.array(bits), acc, v, shuffles=table)
            want = S.NUC[S.arc_of_digit(acc, table, v, digit)]
            if e[0] != "ok" or len(e[1]) != 2 or e[1][0] != want:
                fails.append(("digitmap:encode", f"{tag}: digit {digit} encodes to {e!r}, documented arc {want!r}"))
            elif e[0] == "ok":
                d = outcome(decode, e[1], 4, acc, v, shuffles=table)
                if d[0] != "ok" or [int(x) for x in d[1]] != bits:
                    fails.append(("digitmap:inverse", f"{tag}: decode(encode({bits})) -> {d!r}"))
    for j in range(4):
        a = outcome(decode, S.NUC[j], 2, acc, v, shuffles=table)
        b = outcome(decode, S.NUC[j], 2, acc, v)
        if (a[0] == "ok") != (b[0] == "ok") or (a[0] == "ok") != (j in lv):
            fails.append(("digitmap:walks", f"{tag}: arc {j}: accepted with table {a[0]}, without {b[0]}, live {j in lv}"))
    return fails
