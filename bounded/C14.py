"""C14 bounded stand-in: accessor / latter map / adjacency matrix are interchangeable; leaf queries."""
import numpy

from contracts import specs as S
from bounded.common import outcome
from bounded import gen

RULE = ("arc subsets of the order-k de Bruijn graph: k = 1 seeded (quick: 1500) / all 65,536 (thorough); k = 2..3 (quick) / 2..5 "
        "(thorough) seeded with arc densities 0.1..0.95 (not vertex-induced); per case both round trips, latter-map content, "
        "matrix content, vertex listing, leaf multisets from both representations for every root (k <= 2) / 6 roots and depth "
        "0..4, one illegal single-arc matrix; non-trivial = at least 2 live arcs")
EXHAUSTIVE = {"quick": False, "thorough": True}
CHUNK = 16


def cases(tier, rng):
    subs = range(1 << 16) if tier == "thorough" else [rng.getrandbits(16) for _ in range(1500)] + [0, 1, 0xFFFF]
    for s in subs:
        yield {"k": 1, "arcs": s, "nt": bin(s).count("1") >= 2}
    for k in ((2, 3) if tier == "quick" else (2, 3, 4, 5)):
        for _ in range(150 if tier == "quick" else 500):
            p = rng.choice((0.1, 0.3, 0.5, 0.8, 0.95))
            s = sum(1 << i for i in range(4 ** k * 4) if rng.random() < p)
            yield {"k": k, "arcs": s, "bad": [rng.randrange(4 ** k), rng.randrange(4 ** k)], "nt": True}


def check(case):
    from dsw import (accessor_to_latter_map, latter_map_to_accessor, accessor_to_adjacency_matrix,
                     adjacency_matrix_to_accessor, obtain_vertices, obtain_leaf_vertices)
    k, s = case["k"], case["arcs"]
    n = 4 ** k
    rows = [[S.succ(v, j, k) if (s >> (4 * v + j)) & 1 else -1 for j in range(4)] for v in range(n)]
    acc = numpy.array(rows, dtype=int)
    fails = []
    tag = f"k={k} arcs={s:#x}"
    lm = outcome(accessor_to_latter_map, acc)
    want_lm = S.latter_map_spec(rows)
    if lm[0] != "ok" or {int(a): [int(x) for x in b] for a, b in lm[1].items()} != want_lm:
        fails.append(("latter_map:content", f"{tag}: latter map != live successors of the vertices that have any"))
    else:
        back = outcome(latter_map_to_accessor, lm[1], k)
        if back[0] != "ok" or back[1].tolist() != rows:
            fails.append(("latter_map:roundtrip", f"{tag}: accessor -> latter map -> accessor differs"))
    if (acc != rows).any():
        fails.append(("frame", f"{tag}: accessor modified by accessor_to_latter_map"))
    mx = outcome(accessor_to_adjacency_matrix, acc)
    arcs = S.arc_set(rows)
    if mx[0] != "ok" or mx[1].shape != (n, n) or {(u, w) for u in range(n) for w in range(n) if mx[1][u][w] == 1} != arcs \
            or int(mx[1].sum()) != len(arcs):
        fails.append(("matrix:content", f"{tag}: adjacency matrix != arc set ({mx[0]})"))
    else:
        back = outcome(adjacency_matrix_to_accessor, mx[1])
        if back[0] != "ok" or back[1].tolist() != rows:
            fails.append(("matrix:roundtrip", f"{tag}: accessor -> matrix -> accessor differs: {back[0]}"))
        if "bad" in case or k == 1:
            u, w = case.get("bad", [s % n, (s >> 3) % n])
            if w not in [S.succ(u, j, k) for j in range(4)]:
                bad = mx[1].copy()
                bad[u][w] = 1
                r = outcome(adjacency_matrix_to_accessor, bad)
                if r[0] != "raise" or r[1] != "ValueError":
                    fails.append(("matrix:illegal-arc", f"{tag}: matrix with non-shift arc {u}->{w} gives {r[:2]!r}"))
    vs = outcome(obtain_vertices, acc)
    if vs[0] != "ok" or [int(x) for x in vs[1]] != S.vertices_with_arcs(rows):
        fails.append(("obtain_vertices", f"{tag}: vertex listing != vertices with arcs"))
    roots = range(n) if k <= 2 else [(s >> (3 * i)) % n for i in range(6)]
    for root in roots:
        for depth in range(0, 5):
            want = S.leaf_multiset(rows, root, depth)
            a = outcome(obtain_leaf_vertices, root, depth, accessor=acc)
            b = outcome(obtain_leaf_vertices, root, depth, latter_map=want_lm)
            if a[0] != "ok" or sorted(int(x) for x in a[1]) != want:
                fails.append(("leaf:accessor", f"{tag}: root {root} depth {depth} (accessor) != end points of walks"))
            if b[0] != "ok" or sorted(int(x) for x in b[1]) != want:
                fails.append(("leaf:latter_map", f"{tag}: root {root} depth {depth} (latter map) != end points of walks"))
            if len(want) > 3000 or len(fails) > 4:
                break
    return fails
