"""Input generators shared by the bounded drivers (graphs, walks, filters)."""
import functools

import numpy

from contracts import specs as S

GC_DOC_MASK = [0, 1, 1, 0, 1, 0, 0, 1, 1, 0, 0, 1, 0, 1, 1, 0]   # the order-2 graph of the doc-strings


def acc_array(rows):
    return numpy.array(rows, dtype=int).reshape(-1, 4)


def doc_graph():
    return acc_array(S.induced_accessor([i for i, b in enumerate(GC_DOC_MASK) if b], 2))


def complete(k):
    return acc_array([[S.succ(v, j, k) for j in range(4)] for v in range(4 ** k)])


def random_arc_subset(rng, k, p_live=0.7):
    return acc_array([[S.succ(v, j, k) if rng.random() < p_live else -1 for j in range(4)] for v in range(4 ** k)])


def random_wf_graph(rng, k, allow3=True, tries=200):
    """arc subset in which every vertex keeps >= 1 arc and every vertex reaches a branching vertex
    (rejection sampling); returns (accessor, list of start vertices)."""
    n = 4 ** k
    for _ in range(tries):
        rows = []
        for v in range(n):
            while True:
                row = [S.succ(v, j, k) if rng.random() < rng.choice((0.35, 0.6, 0.9)) else -1 for j in range(4)]
                deg = sum(1 for x in row if x >= 0)
                if deg >= 1 and (allow3 or deg != 3):
                    break
            rows.append(row)
        acc = acc_array(rows)
        if all(S.wf_graph(acc, v) for v in range(n)):
            return acc, list(range(n))
    acc = complete(k)
    return acc, list(range(n))


def random_table(rng, k):
    rows = []
    for _ in range(4 ** k):
        r = [0, 1, 2, 3]
        rng.shuffle(r)
        rows.append(r)
    return numpy.array(rows, dtype=int)


def random_walk(rng, acc, start, n):
    v, out = start, []
    for _ in range(n):
        lv = S.live(acc, v)
        if not lv:
            return None
        j = rng.choice(lv)
        out.append(S.NUC[j])
        v = int(acc[v][j])
    return "".join(out)


FILTER_GRID = [
    # (k, run, gc, motifs)
    (2, 1, None, None), (2, None, (0.5, 0.5), None), (2, 1, (0.0, 0.5), None),
    (3, 2, None, None), (3, 1, (0.3, 0.7), None), (3, 2, (0.3, 0.7), ["AC"]), (3, None, (0.3, 0.7), ["GAT"]),
    (3, 2, (0.0, 1.0), ["CG", "TTA"]), (4, 2, (0.25, 0.75), None), (4, 3, (0.5, 0.5), None),
    (4, 2, (0.4, 0.6), ["GCT"]), (4, 1, None, ["ACGT"]), (4, 3, (0.25, 0.5), ["AG", "TGC"]),
    # configurations that keep homopolymer k-mers (vertex 0 = AA..A is a valid vertex)
    (2, None, (0.0, 0.5), None), (3, None, (0.0, 0.34), None), (3, None, (0.0, 0.67), ["CC"]), (4, None, (0.0, 0.25), None),
]


def make_filter(cfg):
    from dsw import LocalBioFilter
    k, run, gc, motifs = cfg
    return LocalBioFilter(observed_length=k, max_homopolymer_runs=run,
                          gc_range=list(gc) if gc is not None else None,
                          undesired_motifs=list(motifs) if motifs is not None else None)


@functools.lru_cache(maxsize=None)
def generated_graph(cfg_index, t):
    """(mask, retained indices, accessor) for FILTER_GRID[cfg_index] at threshold t, or None when generation raises."""
    from dsw import find_vertices, connect_coding_graph
    cfg = FILTER_GRID[cfg_index]
    try:
        mask = find_vertices(cfg[0], make_filter(cfg))
        _, acc = connect_coding_graph(cfg[0], mask, t)
    except Exception:  # generation raised (ValueError expected; anything else is C03's business)
        return None
    return mask, S.vertices_with_arcs(acc), acc
