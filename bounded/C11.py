"""C11 bounded stand-in: find_vertices / connect_valid_graph mirror the filter."""
import numpy

from contracts import specs as S
from bounded.common import outcome
from bounded import gen

RULE = ("find_vertices: built-in filter grid + user-defined filters implementing the documented interface "
        "valid(self, dna_string) (regional GC, k-mer blacklist, reject-all) x k = 1..4 (quick) / 1..6 (thorough) + filters accepting exactly 1 or 2 "
        "k-mers for k = 1..6; "
        "connect_valid_graph: seeded (quick: 3000) / all 65,536 (thorough) order-2 masks, both dtypes, + None / empty mask; "
        "non-trivial = mask has >= 2 marked vertices")
EXHAUSTIVE = {"quick": False, "thorough": True}
CHUNK = 64


def user_filter(kind, k, param):
    from dsw import DefaultBioFilter

    class Regional(DefaultBioFilter):            # docs/source/customization.rst
        def __init__(self):
            super().__init__(screen_name="regional")

        def valid(self, dna_string):
            g = dna_string.count("C") + dna_string.count("G")
            return abs(g - k * 0.5) <= param * k

    class Blacklist(DefaultBioFilter):
        def __init__(self):
            super().__init__(screen_name="blacklist")

        def valid(self, dna_string):
            return (S.val4(dna_string) * 7 + param) % 5 != 0

    class Single(DefaultBioFilter):               # accepts exactly `param` k-mers (the rarest non-empty masks)
        def __init__(self):
            super().__init__(screen_name="single")

        def valid(self, dna_string):
            return S.val4(dna_string) in [(7 * j + 3) % (4 ** k) for j in range(param)]

    class Nothing(DefaultBioFilter):
        def __init__(self):
            super().__init__(screen_name="nothing")

        def valid(self, dna_string):
            return False
    return {"regional": Regional, "blacklist": Blacklist, "nothing": Nothing, "single": Single}[kind]()


def cases(tier, rng):
    kmax = 4 if tier == "quick" else 6
    for k in range(1, kmax + 1):
        for kind, param in (("regional", 0.1), ("regional", 0.3), ("blacklist", 1), ("blacklist", 3), ("nothing", 0)):
            yield {"kind": "user", "k": k, "filter": kind, "param": param, "nt": True}
    for k in range(1, 7):
        for param in (1, 2):
            yield {"kind": "user", "k": k, "filter": "single", "param": param, "nt": True}
    for i, cfg in enumerate(gen.FILTER_GRID):
        yield {"kind": "builtin", "cfg": i, "nt": True}
    yield {"kind": "builtin-none", "nt": True}
    masks = range(1 << 16) if tier == "thorough" else [rng.getrandbits(16) for _ in range(3000)] + [0, 1, 0x8000, 0xFFFF]
    for m in masks:
        yield {"kind": "valid_graph", "mask": m, "dtype": "bool" if m & 1 else "int", "nt": bin(m).count("1") >= 2}
    yield {"kind": "valid_graph_none", "nt": False}


def check(case):
    from dsw import find_vertices, connect_valid_graph, LocalBioFilter
    fails = []
    kind = case["kind"]
    if kind in ("user", "builtin", "builtin-none"):
        if kind == "user":
            k = case["k"]
            f = user_filter(case["filter"], k, case["param"])
            want = [bool(f.valid(S.kmer(i, k))) for i in range(4 ** k)]
        elif kind == "builtin":
            cfg = gen.FILTER_GRID[case["cfg"]]
            k = cfg[0]
            f = gen.make_filter(cfg)
            want = [S.filter_spec(cfg[0], cfg[1], cfg[2], cfg[3], S.kmer(i, k)) for i in range(4 ** k)]
        else:
            k = 2
            f = LocalBioFilter(observed_length=2, max_homopolymer_runs=1, gc_range=[1.0, 1.0], undesired_motifs=["CG", "GC"])
            want = [False] * 16
        r = outcome(find_vertices, k, f, limit=120)
        if not any(want):
            if r[0] != "raise" or r[1] != "ValueError":
                fails.append(("find_vertices:empty", f"{case}: no k-mer accepted but outcome {r!r}"))
        elif r[0] != "ok":
            fails.append(("find_vertices:raises:" + r[1] if r[0] == "raise" else "find_vertices:timeout",
                          f"{case}: find_vertices -> {r!r}"))
        elif [bool(x) for x in r[1]] != want or len(r[1]) != 4 ** k:
            fails.append(("find_vertices:mask", f"{case}: mask differs from the filter's verdicts"))
        return fails
    if kind == "valid_graph_none":
        r = outcome(connect_valid_graph, 2, None)
        if r[0] != "raise" or r[1] != "ValueError":
            fails.append(("connect_valid_graph:none", f"mask None -> {r!r}"))
        return fails
    m = case["mask"]
    bits = [(m >> i) & 1 for i in range(16)]
    mask = numpy.array(bits, dtype=bool if case["dtype"] == "bool" else int)
    before = mask.copy()
    r = outcome(connect_valid_graph, 2, mask)
    if m == 0:
        if r[0] != "raise" or r[1] != "ValueError":
            fails.append(("connect_valid_graph:empty", f"empty mask -> {r!r}"))
    elif r[0] != "ok":
        fails.append(("connect_valid_graph:raises", f"mask {bits} -> {r!r}"))
    else:
        want = S.induced_accessor([i for i in range(16) if bits[i]], 2)
        if r[1].shape != (16, 4) or r[1].tolist() != want:
            fails.append(("connect_valid_graph:arcs", f"mask {bits}: accessor differs from the induced graph"))
    if not (before == mask).all():
        fails.append(("connect_valid_graph:frame", f"mask {bits} modified"))
    return fails
