"""C12 bounded stand-in: LocalBioFilter.valid against the documented window predicate."""
import itertools

from contracts import specs as S
from bounded.common import outcome

RULE = ("configuration grid (k 1..4 x run None/1..k x gc None/6 ranges incl. degenerate and asymmetric x 5 motif sets, "
        "constructor-rejected ones skipped) x strings: all over ACGT of length 0..5 (quick) / 0..7 (thorough) plus strings with a "
        "foreign character; one case = (configuration, string): whole-sequence verdict = filter_spec, last-window verdict = "
        "verdict of s[-k:], window conjunction (decidable cfg, len >= k), reverse-complement invariance (also for 6 motif sets outside A/C/G/T, k 1..3); "
        "non-trivial = len >= k and at least one rule configured")
EXHAUSTIVE = {"quick": False, "thorough": False}
CHUNK = 4

GCS = [None, (0.5, 0.5), (0.0, 1.0), (0.3, 0.7), (0.25, 0.5), (0.6, 0.9), (0.0, 0.0)]
MOTIFS = [None, ["AC"], ["G"], ["CG", "TTA"], ["GATC"], ["AAA", "ACT"]]


def configs():
    for k in (1, 2, 3, 4):
        for run in [None] + list(range(1, k + 1)):
            for gc in GCS:
                for mot in MOTIFS:
                    yield (k, run, gc, mot)


# motif sets outside the A/C/G/T alphabet: a lower-case letter is not matched itself, but the upper-casing of its 'reverse complement' is (known finding D9)
ODD_MOTIFS = [["a"], ["ac"], ["aC", "G"], ["N"], ["AN"], ["t", "CG"]]


def cases(tier, rng):
    for k in (1, 2, 3):
        for mot in ODD_MOTIFS:
            yield {"cfg": (k, None, None, mot), "maxlen": 4, "nt": True}
    cfgs = list(configs())
    if tier == "quick":
        cfgs = rng.sample(cfgs, 90)
    for c in cfgs:
        yield {"cfg": c, "maxlen": 5 if tier == "quick" else 7, "nt": True}


def check(case):
    from dsw import LocalBioFilter
    k, run, gc, mot = case["cfg"]
    gc = tuple(gc) if gc is not None else None
    fails = []
    r = outcome(LocalBioFilter, observed_length=k, max_homopolymer_runs=run,
                gc_range=list(gc) if gc else None, undesired_motifs=mot)
    if r[0] != "ok":
        return fails          # constructor verdicts are C02's clause
    f = r[1]
    dec = S.window_decidable(k, run, mot)
    strings = [""]
    for n in range(1, case["maxlen"] + 1):
        strings += ["".join(t) for t in itertools.product("ACGT", repeat=n)]
    strings += ["N", "ACNG", "acgt", "AC-T", "ACGU", "A" * 9, "ACGTACGTAC", "GGGGCCCCAT", "ATATATATATAT", "CCGCGGTTAA"]
    verdict = {}
    for s in strings:
        got = outcome(f.valid, s, False)
        want = S.filter_spec(k, run, gc, mot, s)
        verdict[s] = want
        if got[0] != "ok" or bool(got[1]) != want:
            fails.append(("valid:whole", f"cfg={case['cfg']} valid({s!r}, only_last=False) -> {got!r}, spec {want}"))
        got = outcome(f.valid, s, True)
        want_last = S.filter_spec(k, run, gc, mot, s[-k:])
        if got[0] != "ok" or bool(got[1]) != want_last:
            fails.append(("valid:last", f"cfg={case['cfg']} valid({s!r}, only_last=True) -> {got!r}, spec {want_last}"))
        if len(fails) > 5:
            return fails
    for s in strings:
        if any(c not in "ACGT" for c in s):
            continue
        whole = bool(f.valid(s, False))
        if dec and len(s) >= k:
            conj = all(bool(f.valid(s[i:i + k], False)) for i in range(len(s) - k + 1))
            if conj != whole:
                fails.append(("lemma:window-conjunction", f"cfg={case['cfg']} s={s!r}: whole {whole} but windows {conj}"))
        rc = S.revcomp(s)
        if bool(f.valid(rc, False)) != whole:
            lower = mot is not None and any(c in "acgt" for m_ in mot for c in m_)
            fails.append(("lemma:revcomp:lowercase-motif" if lower else "lemma:revcomp",
                          f"cfg={case['cfg']} s={s!r}: verdict {whole}, reverse complement {rc!r} differs"))
        if len(fails) > 5:
            break
    return fails
