"""C09 / C10 bounded stand-ins (shared inputs): clean strands untouched, candidates check-consistent; repair always returns."""
import itertools
import random

import numpy

from contracts import specs as S
from bounded.common import outcome
from bounded import gen

RULE = ("graphs: doc-string graph, complete order 1..2, seeded arc subsets (order 1..3, incl. vertices without arcs), generated graphs of "
        "the filter grid; strands of length >= k: walks, walks with 1..4 seeded edits anywhere (first nucleotide, last window), random "
        "strings; x check absent / right / wrong x indel on/off x heap limit {0, 1, 50, 1e3}: clean walk -> exactly [strand] (or [] when "
        "the check disagrees) and 0 detected; whenever it returns: candidates sorted, duplicate-free, each reproduces a supplied check; "
        "non-trivial = strand length >= 2k")
EXHAUSTIVE = {"quick": False, "thorough": False}
CHUNK = 4


def graphs(case):
    r = random.Random(case["gseed"])
    kind = case["graph"]
    if kind == "doc":
        return gen.doc_graph(), 2
    if kind == "complete":
        return gen.complete(case["k"]), case["k"]
    if kind == "grid":
        gg = gen.generated_graph(case["cfg"], case["t"])
        if gg is None:
            return gen.doc_graph(), 2
        return gg[2], gen.FILTER_GRID[case["cfg"]][0]
    return gen.random_arc_subset(r, case["k"], r.choice((0.5, 0.7, 0.9))), case["k"]


def graph_cases(tier, rng):
    out = [{"graph": "doc", "k": 2, "gseed": 0}, {"graph": "complete", "k": 1, "gseed": 0}, {"graph": "complete", "k": 2, "gseed": 0}]
    for k in (1, 2, 3):
        for _ in range(3 if tier == "quick" else 25):
            out.append({"graph": "subset", "k": k, "gseed": rng.getrandbits(32)})
    for i in range(len(gen.FILTER_GRID)):
        out.append({"graph": "grid", "cfg": i, "t": 2, "gseed": 0})
        if tier != "quick":
            out.append({"graph": "grid", "cfg": i, "t": 1, "gseed": 0})
    return out


def cases(tier, rng):
    for g in graph_cases(tier, rng):
        for rep in range(6 if tier == "quick" else 12):
            c = dict(g)
            c.update({"mseed": rng.getrandbits(32), "nt": True})
            yield c


def strands(r, acc, k, n):
    out = []
    for _ in range(14):
        start = r.randrange(n)
        w = gen.random_walk(r, acc, start, r.randint(k, 9 * k + 4))
        if w is None:
            continue
        out.append((start, w, True))
        e = w
        for _ in range(r.randint(1, 4)):
            if not e:
                break
            p = r.choice((0, len(e) - 1, r.randrange(len(e)), r.randrange(len(e))))
            kind = r.choice("SID")
            e = e[:p] + r.choice("ACGT") + e[p + 1:] if kind == "S" else (e[:p] + r.choice("ACGT") + e[p:] if kind == "I" else e[:p] + e[p + 1:])
        if len(e) >= k:
            out.append((start, e, False))
    for _ in range(6):
        out.append((r.randrange(n), "".join(r.choice("ACGT") for _ in range(r.randint(k, 6 * k + 3))), False))
    return out


def check(case):
    from dsw import repair_dna
    acc, k = graphs(case)
    n = 4 ** k
    r = random.Random(case["mseed"])
    fails = []
    for start, s, _ in strands(r, acc, k, n):
        clean = S.is_walk(acc, start, s)
        for chk_mode in ("none", "right", "wrong"):
            chk = None
            if chk_mode != "none":
                chk = S.vt_spec(s, r.randint(1, 3))
                if chk_mode == "wrong":
                    chk = S.NUC[(S.code(chk[0]) + 1) % 4] + chk[1:]
            indel = r.random() < 0.5
            heap = r.choice((0, 1, 50, 1e3))
            tag = f"{case['graph']} k={k} gseed={case.get('gseed')} cfg={case.get('cfg')} start={start} s={s!r} check={chk!r} indel={indel} heap={heap}"
            o = outcome(repair_dna, s, acc, start, k, vt_check=chk, has_indel=indel, heap_size=heap, limit=4)
            if o[0] != "ok":
                break                      # returning at all is C10's clause
            cands, stats = o[1]
            if clean:
                want = [] if chk_mode == "wrong" else [s]
                if list(cands) != want or stats[0] != 0:
                    fails.append(("clean", f"{tag}: clean walk but repair -> {cands!r}, stats {stats}"))
            if list(cands) != sorted(set(cands)):
                fails.append(("sorted-unique", f"{tag}: candidates not sorted/duplicate-free: {cands!r}"))
            if chk is not None:
                badc = [c for c in cands if S.vt_spec(c, len(chk)) != chk]
                if badc:
                    fails.append(("check-consistent", f"{tag}: candidates {badc!r} do not reproduce the check"))
            if len(fails) > 5:
                return fails
    return fails
