"""C03 bounded stand-in: connect_coding_graph returns the greatest closed sub-graph or raises ValueError."""
import numpy

from contracts import specs as S
from bounded.common import outcome

RULE = ("order-2 vertex masks: seeded (quick: 2500) / all 65,536 (thorough), each x thresholds 1..4 x dtype bool/int; seeded masks "
        "for k = 3 (quick) and k = 3..5 (thorough, 400 each); per case: result vs the executable greatest-closed-subset oracle, "
        "returned vertex description, ValueError and nothing else when empty, input mask unchanged, monotonicity against a "
        "random sub-mask, latter-map trimming agreement (t >= 2); non-trivial = mask has >= 2 marked vertices")
EXHAUSTIVE = {"quick": False, "thorough": True}
CHUNK = 32


def cases(tier, rng):
    masks = range(1 << 16) if tier == "thorough" else [rng.getrandbits(16) for _ in range(2500)] + [0, 1, 2, 0x8000, 0xFFFF, 0b1001110110]
    for m in masks:
        for t in (1, 2, 3, 4):
            yield {"k": 2, "mask": m, "t": t, "dtype": "bool" if (m >> 3) & 1 else "int", "sub": rng.getrandbits(16),
                   "nt": bin(m).count("1") >= 2}
    for k in ((3,) if tier == "quick" else (3, 4, 5)):
        for _ in range(60 if tier == "quick" else 400):
            dens = rng.choice((0.3, 0.5, 0.7, 0.9))
            m = sum(1 << i for i in range(4 ** k) if rng.random() < dens)
            for t in (1, 2, 3):
                yield {"k": k, "mask": m, "t": t, "dtype": "int", "sub": rng.getrandbits(4 ** k), "nt": True}


def run_one(k, m, t, dtype):
    from dsw import connect_coding_graph
    n = 4 ** k
    bits = [(m >> i) & 1 for i in range(n)]
    mask = numpy.array(bits, dtype=bool if dtype == "bool" else int)
    before = mask.copy()
    r = outcome(connect_coding_graph, k, mask, t, limit=60)
    same = bool((before == mask).all()) and mask.dtype == before.dtype
    return bits, r, same


def describe(r, t, n):
    """vertex set denoted by the returned description: a 0/1 mask of length n for t >= 2, an index array for t = 1."""
    desc = r[1][0]
    if t == 1:
        return sorted(int(x) for x in desc)
    return [i for i in range(n) if desc[i]]


def check(case):
    from dsw import connect_valid_graph, accessor_to_latter_map, latter_map_to_accessor
    k, m, t = case["k"], case["mask"], case["t"]
    n = 4 ** k
    fails = []
    bits, r, same = run_one(k, m, t, case["dtype"])
    want = sorted(S.greatest_closed(bits, k, t))
    tag = f"t{'1' if t == 1 else '>=2'}"
    if not same:
        fails.append((f"{tag}:frame", f"k={k} mask={m:#x} t={t}: input mask modified"))
    if not want:
        if r[0] != "raise" or r[1] != "ValueError":
            fails.append((f"{tag}:empty-not-ValueError", f"k={k} mask={m:#x} t={t}: greatest closed subset is empty but outcome {r[:2]!r}"))
        return fails
    if r[0] != "ok":
        fails.append((f"{tag}:raises", f"k={k} mask={m:#x} t={t}: oracle keeps {want} but outcome {r!r}"))
        return fails
    acc = r[1][1]
    if acc.shape != (n, 4) or acc.tolist() != S.induced_accessor(want, k):
        got = S.vertices_with_arcs(acc)
        fails.append((f"{tag}:graph", f"k={k} mask={m:#x} t={t}: retained {got}, greatest closed subset {want}"))
        return fails
    try:
        if describe(r, t, n) != want:
            fails.append((f"{tag}:description", f"k={k} mask={m:#x} t={t}: returned vertex description != vertices with arcs"))
    except Exception as e:  # noqa
        fails.append((f"{tag}:description", f"k={k} mask={m:#x} t={t}: unreadable description {e!r}"))
    sub = m & case["sub"]
    sbits, sr, _ = run_one(k, sub, t, case["dtype"])
    if sr[0] == "ok" and not set(S.vertices_with_arcs(sr[1][1])) <= set(want):
        fails.append((f"{tag}:monotone", f"k={k} t={t}: sub-mask {sub:#x} of {m:#x} gives a larger graph"))
    if t >= 2:
        vr = outcome(connect_valid_graph, k, numpy.array(bits))
        if vr[0] == "ok":
            lm = accessor_to_latter_map(vr[1])
            tr = outcome(latter_map_to_accessor, lm, k, t)
            if tr[0] != "ok" or tr[1].tolist() != acc.tolist():
                fails.append(("trim:latter-map", f"k={k} mask={m:#x} t={t}: latter-map trimming differs from generation"))
    return fails
