"""Sidecar contracts for dsw/operation.py (keyed by qualified name and loop ordinal; expressions are Python parsed by ast,
evaluated symbolically by pyvc and concretely by CPython).  C15 / C16."""

DIGITS = [str(d) for d in range(10)]

CONTRACTS = [
    dict(
        name="dsw.operation.calculus_division", n_loops=2,
        params={"number": "str", "base": "digit"},
        split={"base": DIGITS[1:]},
        requires={"canonical-number": "canon(number)"},
        returns="tuple(str,str)",
        ensures={
            "canonical-quotient": "canon(result[0])",
            "one-digit-remainder": "len(result[1]) == 1 and digits(result[1]) and 0 <= dval(result[1]) < dval(base)",
            "value": "dval(old(number)) == dval(result[0]) * dval(base) + dval(result[1])",
        },
        raises={},
        loops={
            1: dict(binds="enumerate(number)", invariant={
                "length": "len(new_number) == _i",
                "digits": "digits(new_number)",
                "remainder-range": "0 <= remainder < dval(base)",
                "prefix-value": "val(number, 0, _i) == val(new_number, 0, _i) * dval(base) + remainder",
            }),
            2: dict(binds="range(len(quotient))", invariant={
                "zeros-so-far": "forall(lambda j: quotient[j] == '0', 0, _i)",
                "zero-value-so-far": "val(quotient, 0, _i) == 0",
            }),
        },
        lemmas=["pv_store_frame", "pv_leading_zeros"],
    ),
    dict(
        name="dsw.operation.calculus_multiplication", n_loops=2,
        params={"number": "str", "base": "digit"},
        split={"base": DIGITS},
        requires={"canonical-number": "canon(number)"},
        returns="str",
        ensures={
            "canonical": "canon(result)",
            "value": "dval(result) == dval(old(number)) * dval(base)",
        },
        raises={},
        ghost={
            # carry array: c[j] = carry out of position j (c[n] = 0)
            "before_loop1": "orig = number\nc = [0] * (len(number) + 1)",
            "loop1_end": "c[index] = remainder",
            # left-to-right induction: value of [c[0]] + number up to g  ==  b * value(orig up to g) + c[g]
            "after_loop1": "num1 = number\nR = [c[0]] + number\ng = 0\nwhile g < len(orig):\n    g += 1\n"
                           "assert val(R, 0, 1) == c[0], 'head-of-R'\n"
                           "assert val(R, 1, len(orig) + 1) == val(num1, 0, len(orig)), 'tail-of-R'",
        },
        loops={
            1: dict(binds="range(len(number))[::-1]", invariant={
                "length": "len(number) == len(orig) and len(c) == len(orig) + 1",
                "untouched-prefix": "same(number, orig, 0, len(orig) - _i)",
                "digits": "digits(number) and digits(orig)",
                "carry-range": "0 <= remainder <= 8 and forall(lambda j: 0 <= c[j] <= 8, len(orig) - _i, len(orig) + 1)",
                "carry-parked": "c[len(orig) - _i] == remainder and c[len(orig)] == 0",
                "digit-equation": "forall(lambda j: orig[j] * int(base) + c[j + 1] == 10 * c[j] + number[j], len(orig) - _i, len(orig))",
            }),
            "after_loop1#1": dict(invariant={          # ghost lemma loop
                "range": "0 <= g <= len(orig)",
                "horner": "val(R, 0, g + 1) == int(base) * val(orig, 0, g) + c[g]",
            }, variant="len(orig) - g"),
            2: dict(binds="remainder > 0", invariant={          # while remainder > 0: prepend the (single digit) carry
                "shape": "(remainder == c[0] and seq_is(number, num1)) or (remainder == 0 and c[0] > 0 and seq_is_cons(number, c[0], num1))",
            }, variant="remainder"),
        },
        lemmas=["pv_store_frame", "pv_leading_zeros"],
    ),
    dict(
        name="dsw.operation.calculus_addition", n_loops=2,
        params={"number": "str", "base": "digit"},
        split={"base": DIGITS},
        requires={"canonical-number": "canon(number)"},
        returns="str",
        ensures={
            "canonical": "canon(result)",
            "value": "dval(result) == dval(old(number)) + dval(old(base))",
        },
        raises={},
        ghost={
            # c[j] = carry out of position j, parked by the code in result[j] until position j-1 consumes it; c[n] = 0
            "before_loop1": "c = [0] * (len(number) + 1)\nz = 0\nwhile z < len(number) - 1:\n    z += 1\n"
                            "assert val(base, 0, len(number)) == dval(old(base)), 'zfill-value'",
            "loop1_end": "c[index] = result[index]",
            "before_loop2": "s0 = sum_value\nres0 = result",
            "after_loop1": "g = 0\nwhile g < len(number):\n    g += 1\nassert val(result, 0, 1) == c[0], 'head-of-result'",
        },
        loops={
            "before_loop1#1": dict(invariant={          # ghost: a zero-filled prefix has value 0
                "range": "0 <= z <= len(number) - 1",
                "zero-prefix": "val(base, 0, z) == 0",
            }, variant="len(number) - 1 - z"),
            1: dict(binds="range(len(number) - 1, -1, -1)", invariant={
                "length": "len(result) == len(number) + 1 and len(c) == len(number) + 1 and len(base) == len(number)",
                "operand-digits": "digits(number) and digits(base)",
                "parked-carry": "result[len(number) - _i] == c[len(number) - _i] and c[len(number)] == 0",
                "carry-range": "forall(lambda j: 0 <= c[j] <= 1, len(number) - _i, len(number) + 1)",
                "untouched-cells": "forall(lambda j: result[j] == 0, 0, len(number) - _i)",
                "finished-digits": "forall(lambda j: 0 <= result[j] <= 9, len(number) - _i + 1, len(number) + 1)",
                "digit-equation": "forall(lambda j: dig(number, j) + dig(base, j) + c[j + 1] == 10 * c[j] + result[j + 1], len(number) - _i, len(number))",
            }),
            2: dict(binds="sum_value > 0", invariant={          # at most two rounds (10 <= s0 <= 19)
                "s0-range": "10 <= s0 <= 19",
                "shape": "(flag == 0 and sum_value == s0 and seq_is(result, res0))"
                         " or (flag == 1 and sum_value == s0 // 10 and seq_is(result, upd(res0, index + 1, s0 % 10)))"
                         " or (flag == 2 and sum_value == 0 and seq_is(result, upd(upd(res0, index + 1, s0 % 10), index, 1)))",
            }, variant="sum_value"),
            "after_loop1#1": dict(invariant={          # ghost lemma loop: left-to-right induction over the digit equations
                "range": "0 <= g <= len(number)",
                "horner": "val(result, 0, g + 1) == val(number, 0, g) + val(base, 0, g) + c[g]",
            }, variant="len(number) - g"),
        },
        lemmas=["pv_store_frame", "pv_leading_zeros"],
    ),
    dict(
        name="dsw.operation.calculus_subtraction", n_loops=4,
        params={"number": "str", "base": "digit"},
        split={"base": DIGITS},
        requires={"canonical-number": "canon(number)", "non-negative-result": "dval(number) >= dval(base)"},
        returns="str",
        ensures={
            "canonical": "canon(result)",
            "value": "dval(result) == dval(old(number)) - dval(old(base))",
        },
        raises={},
        ghost={
            "before_loop1": "orig = number\nborrowed = 0\nfz = 0",
            "after_loop2": "borrowed = 1\nfz = flag_a",
            # value of the rewritten prefix: unchanged below fz-1, one less from fz on (..x 0 0 0 -> ..(x-1) 9 9 9)
            "before_loop3": "res_last = residue\n"
                            "if borrowed == 1:\n"
                            "    e0 = 0\n"
                            "    while e0 < fz - 1:\n"
                            "        e0 += 1\n"
                            "    h = fz\n"
                            "    while h < len(number) - 1:\n"
                            "        h += 1\n",
            # the characters collected in residue are the digits of number[0 .. n-2] followed by the last digit
            "after_loop3": "e = 0\nwhile e < len(number) - 1:\n    e += 1\n"
                           "assert val(residue, 0, len(number)) == 10 * val(number, 0, len(number) - 1) + dig(res_last, 0), 'residue-value'",
        },
        loops={
            2: dict(binds="number[flag_a - 1] == 0", invariant={          # borrow chain
                "range": "1 <= flag_a <= len(number) - 1 and len(number) == len(orig) and len(number) >= 2",
                "orig": "digits(orig) and orig[0] >= 1",
                "untouched": "forall(lambda j: number[j] == orig[j], 0, flag_a) and number[len(number) - 1] == orig[len(number) - 1]",
                "nines": "forall(lambda j: number[j] == 9 and orig[j] == 0, flag_a, len(number) - 1)",
            }, variant="flag_a"),
            "before_loop3#1": dict(invariant={
                "range": "0 <= e0 and (e0 <= fz - 1 or fz - 1 < 0)",
                "agree": "val(number, 0, e0) == val(orig, 0, e0)",
            }, variant="fz - 1 - e0"),
            "before_loop3#2": dict(invariant={
                "range": "fz <= h <= len(number) - 1",
                "one-less": "val(number, 0, h) == val(orig, 0, h) - 1",
            }, variant="len(number) - 1 - h"),
            3: dict(binds="range(len(number) - 1 - index - 1, -1, -1)", invariant={          # prepend the remaining digits
                "length": "len(residue) == _i + 1",
                "collected": "forall(lambda j: dig(residue, j) == number[len(number) - 1 - _i + j], 0, _i)",
                "last": "dig(residue, _i) == dig(res_last, 0)",
            }),
            "after_loop3#1": dict(invariant={
                "range": "0 <= e <= len(number) - 1",
                "agree": "val(residue, 0, e) == val(number, 0, e)",
            }, variant="len(number) - 1 - e"),
            4: dict(binds="range(len(residue))", invariant={
                "zeros-so-far": "forall(lambda j: residue[j] == '0', 0, _i)",
                "zero-value-so-far": "val(residue, 0, _i) == 0",
            }),
        },
        lemmas=["pv_store_frame", "pv_leading_zeros"],
    ),
]
