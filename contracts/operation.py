"""Sidecar contracts for dsw/operation.py (keyed by qualified name and loop ordinal; expressions are Python parsed by ast,
evaluated symbolically by pyvc and concretely by CPython).  C15 / C16."""

DIGITS = [str(d) for d in range(10)]

CONTRACTS = [
    dict(
        name="dsw.operation.calculus_division", n_loops=2,
        params={"number": "str", "base": "digit"},
        split={"base": DIGITS[1:]},
        requires={"canonical-number": "canon(number)"},
        returns="tuple(str,str)",
        ensures={
            "canonical-quotient": "canon(result[0])",
            "one-digit-remainder": "len(result[1]) == 1 and digits(result[1]) and 0 <= dval(result[1]) < dval(base)",
            "value": "dval(old(number)) == dval(result[0]) * dval(base) + dval(result[1])",
        },
        raises={},
        loops={
            1: dict(binds="enumerate(number)", invariant={
                "length": "len(new_number) == _i",
                "digits": "digits(new_number)",
                "remainder-range": "0 <= remainder < dval(base)",
                "prefix-value": "val(number, 0, _i) == val(new_number, 0, _i) * dval(base) + remainder",
            }),
            2: dict(binds="range(len(quotient))", invariant={
                "zeros-so-far": "forall(lambda j: quotient[j] == '0', 0, _i)",
                "zero-value-so-far": "val(quotient, 0, _i) == 0",
            }),
        },
        lemmas=["pv_store_frame", "pv_leading_zeros"],
    ),
    dict(
        name="dsw.operation.calculus_multiplication", n_loops=2,
        params={"number": "str", "base": "digit"},
        split={"base": DIGITS},
        requires={"canonical-number": "canon(number)"},
        returns="str",
        ensures={
            "canonical": "canon(result)",
            "value": "dval(result) == dval(old(number)) * dval(base)",
        },
        raises={},
        ghost={
            # carry array: c[j] = carry out of position j (c[n] = 0)
            "before_loop1": "orig = number\nc = [0] * (len(number) + 1)",
            "loop1_end": "c[index] = remainder",
            # left-to-right induction: value of [c[0]] + number up to g  ==  b * value(orig up to g) + c[g]
            "after_loop1": "num1 = number\nR = [c[0]] + number\ng = 0\nwhile g < len(orig):\n    g += 1\n"
                           "assert val(R, 0, 1) == c[0], 'head-of-R'\n"
                           "assert val(R, 1, len(orig) + 1) == val(num1, 0, len(orig)), 'tail-of-R'",
        },
        loops={
            1: dict(binds="range(len(number))[::-1]", invariant={
                "length": "len(number) == len(orig) and len(c) == len(orig) + 1",
                "untouched-prefix": "same(number, orig, 0, len(orig) - _i)",
                "digits": "digits(number) and digits(orig)",
                "carry-range": "0 <= remainder <= 8 and forall(lambda j: 0 <= c[j] <= 8, len(orig) - _i, len(orig) + 1)",
                "carry-parked": "c[len(orig) - _i] == remainder and c[len(orig)] == 0",
                "digit-equation": "forall(lambda j: orig[j] * int(base) + c[j + 1] == 10 * c[j] + number[j], len(orig) - _i, len(orig))",
            }),
            "after_loop1#1": dict(invariant={          # ghost lemma loop
                "range": "0 <= g <= len(orig)",
                "horner": "val(R, 0, g + 1) == int(base) * val(orig, 0, g) + c[g]",
            }, variant="len(orig) - g"),
            2: dict(binds="remainder > 0", invariant={          # while remainder > 0: prepend the (single digit) carry
                "shape": "(remainder == c[0] and seq_is(number, num1)) or (remainder == 0 and c[0] > 0 and seq_is_cons(number, c[0], num1))",
            }, variant="remainder"),
        },
        lemmas=["pv_store_frame", "pv_leading_zeros"],
    ),
    dict(
        name="dsw.operation.calculus_addition", n_loops=2,
        params={"number": "str", "base": "digit"},
        split={"base": DIGITS},
        requires={"canonical-number": "canon(number)"},
        returns="str",
        ensures={
            "canonical": "canon(result)",
            "value": "dval(result) == dval(old(number)) + dval(old(base))",
        },
        raises={},
        ghost={
            # c[j] = carry out of position j, parked by the code in result[j] until position j-1 consumes it; c[n] = 0
            "before_loop1": "c = [0] * (len(number) + 1)\nz = 0\nwhile z < len(number) - 1:\n    z += 1\n"
                            "assert val(base, 0, len(number)) == dval(old(base)), 'zfill-value'",
            "loop1_end": "c[index] = result[index]",
            "before_loop2": "s0 = sum_value\nres0 = result",
            "after_loop1": "g = 0\nwhile g < len(number):\n    g += 1\nassert val(result, 0, 1) == c[0], 'head-of-result'",
        },
        loops={
            "before_loop1#1": dict(invariant={          # ghost: a zero-filled prefix has value 0
                "range": "0 <= z <= len(number) - 1",
                "zero-prefix": "val(base, 0, z) == 0",
            }, variant="len(number) - 1 - z"),
            1: dict(binds="range(len(number) - 1, -1, -1)", invariant={
                "length": "len(result) == len(number) + 1 and len(c) == len(number) + 1 and len(base) == len(number)",
                "operand-digits": "digits(number) and digits(base)",
                "parked-carry": "result[len(number) - _i] == c[len(number) - _i] and c[len(number)] == 0",
                "carry-range": "forall(lambda j: 0 <= c[j] <= 1, len(number) - _i, len(number) + 1)",
                "untouched-cells": "forall(lambda j: result[j] == 0, 0, len(number) - _i)",
                "finished-digits": "forall(lambda j: 0 <= result[j] <= 9, len(number) - _i + 1, len(number) + 1)",
                "digit-equation": "forall(lambda j: dig(number, j) + dig(base, j) + c[j + 1] == 10 * c[j] + result[j + 1], len(number) - _i, len(number))",
            }),
            2: dict(binds="sum_value > 0", invariant={          # at most two rounds (10 <= s0 <= 19)
                "s0-range": "10 <= s0 <= 19",
                "shape": "(flag == 0 and sum_value == s0 and seq_is(result, res0))"
                         " or (flag == 1 and sum_value == s0 // 10 and seq_is(result, upd(res0, index + 1, s0 % 10)))"
                         " or (flag == 2 and sum_value == 0 and seq_is(result, upd(upd(res0, index + 1, s0 % 10), index, 1)))",
            }, variant="sum_value"),
            "after_loop1#1": dict(invariant={          # ghost lemma loop: left-to-right induction over the digit equations
                "range": "0 <= g <= len(number)",
                "horner": "val(result, 0, g + 1) == val(number, 0, g) + val(base, 0, g) + c[g]",
            }, variant="len(number) - g"),
        },
        lemmas=["pv_store_frame", "pv_leading_zeros"],
    ),
    dict(
        name="dsw.operation.calculus_subtraction", n_loops=4,
        params={"number": "str", "base": "digit"},
        split={"base": DIGITS},
        requires={"canonical-number": "canon(number)", "non-negative-result": "dval(number) >= dval(base)"},
        returns="str",
        ensures={
            "canonical": "canon(result)",
            "value": "dval(result) == dval(old(number)) - dval(old(base))",
        },
        raises={},
        ghost={
            "before_loop1": "orig = number\nborrowed = 0\nfz = 0",
            "after_loop2": "borrowed = 1\nfz = flag_a",
            # value of the rewritten prefix: unchanged below fz-1, one less from fz on (..x 0 0 0 -> ..(x-1) 9 9 9)
            "before_loop3": "res_last = residue\n"
                            "if borrowed == 1:\n"
                            "    e0 = 0\n"
                            "    while e0 < fz - 1:\n"
                            "        e0 += 1\n"
                            "    h = fz\n"
                            "    while h < len(number) - 1:\n"
                            "        h += 1\n",
            # the characters collected in residue are the digits of number[0 .. n-2] followed by the last digit
            "after_loop3": "e = 0\nwhile e < len(number) - 1:\n    e += 1\n"
                           "assert val(residue, 0, len(number)) == 10 * val(number, 0, len(number) - 1) + dig(res_last, 0), 'residue-value'",
        },
        loops={
            2: dict(binds="number[flag_a - 1] == 0", invariant={          # borrow chain
                "range": "1 <= flag_a <= len(number) - 1 and len(number) == len(orig) and len(number) >= 2",
                "orig": "digits(orig) and orig[0] >= 1",
                "untouched": "forall(lambda j: number[j] == orig[j], 0, flag_a) and number[len(number) - 1] == orig[len(number) - 1]",
                "nines": "forall(lambda j: number[j] == 9 and orig[j] == 0, flag_a, len(number) - 1)",
            }, variant="flag_a"),
            "before_loop3#1": dict(invariant={
                "range": "0 <= e0 and (e0 <= fz - 1 or fz - 1 < 0)",
                "agree": "val(number, 0, e0) == val(orig, 0, e0)",
            }, variant="fz - 1 - e0"),
            "before_loop3#2": dict(invariant={
                "range": "fz <= h <= len(number) - 1",
                "one-less": "val(number, 0, h) == val(orig, 0, h) - 1",
            }, variant="len(number) - 1 - h"),
            3: dict(binds="range(len(number) - 1 - index - 1, -1, -1)", invariant={          # prepend the remaining digits
                "length": "len(residue) == _i + 1",
                "collected": "forall(lambda j: dig(residue, j) == number[len(number) - 1 - _i + j], 0, _i)",
                "last": "dig(residue, _i) == dig(res_last, 0)",
            }),
            "after_loop3#1": dict(invariant={
                "range": "0 <= e <= len(number) - 1",
                "agree": "val(residue, 0, e) == val(number, 0, e)",
            }, variant="len(number) - 1 - e"),
            4: dict(binds="range(len(residue))", invariant={
                "zeros-so-far": "forall(lambda j: residue[j] == '0', 0, _i)",
                "zero-value-so-far": "val(residue, 0, _i) == 0",
            }),
        },
        lemmas=["pv_store_frame", "pv_leading_zeros"],
    ),
    # ------------------------------------------------------------------ C16: bit_to_number
    dict(name="dsw.operation.bit_to_number", abstract=True,
         dispatch={"param": "is_string", "true": "dsw.operation.bit_to_number#str", "false": "dsw.operation.bit_to_number#int"}),
    dict(
        name="dsw.operation.bit_to_number#str", function="dsw.operation.bit_to_number", variant_of="dsw.operation.bit_to_number", n_loops=2,
        params={"bit_array": "bits", "is_string": "true", "verbose": "false"},
        returns="str",
        ensures={"canonical": "canon(result)", "value": "dval(result) == val(bit_array, 0, len(bit_array), 2)"},
        raises={},
        loops={1: dict(binds="enumerate(bit_array)", invariant={
            "canonical": "canon(decimal_number)", "horner": "dval(decimal_number) == val(bit_array, 0, _i, 2)"})},
    ),
    dict(
        name="dsw.operation.bit_to_number#int", function="dsw.operation.bit_to_number", variant_of="dsw.operation.bit_to_number", n_loops=2,
        params={"bit_array": "bits", "is_string": "false", "verbose": "false"},
        returns="int",
        ensures={"value": "result == val(bit_array, 0, len(bit_array), 2)"},
        raises={},
        loops={2: dict(binds="enumerate(bit_array)", invariant={"horner": "decimal_number == val(bit_array, 0, _i, 2)"})},
    ),
    # ------------------------------------------------------------------ C16: number_to_bit
    dict(name="dsw.operation.number_to_bit", abstract=True,
         dispatch={"param": "decimal_number", "str": "dsw.operation.number_to_bit#str", "int": "dsw.operation.number_to_bit#int",
                   "zero": "dsw.operation.number_to_bit#int"}),
    dict(
        name="dsw.operation.number_to_bit#str", function="dsw.operation.number_to_bit", variant_of="dsw.operation.number_to_bit", n_loops=2,
        params={"decimal_number": "str", "bit_length": "nat"},
        candidates={"bit_length": list(range(0, 13)) + [16, 31, 32, 33, 63, 64, 65, 100, 129, 200]},
        requires={"canonical-number": "canon(decimal_number)"},
        returns="list_int",
        ensures={
            "length": "len(result) == bit_length",
            "bits": "digits(result, 0, len(result), 1)",
            "value": "implies(dval(decimal_number) < ipow(2, bit_length), val(result, 0, bit_length, 2) == dval(decimal_number))",
        },
        raises={},
        ghost={
            # gq = the quotient sequence: gq[0] = n, gq[i+1] = gq[i] // 2 ; the bit inserted in round i is gq[i] % 2
            "before_loop1": "gq = [dval(decimal_number)]",
            "loop1_begin": "pv_positive(A(decimal_number), D(decimal_number), P(decimal_number, 0), P(decimal_number, len(decimal_number)), 10)",
            "loop1_end": "gq.append(dval(decimal_number))",
            "after_loop1": "t = len(one_array)\n"
                           "u = 0\n"
                           "while u < t:\n"
                           "    u += 1\n"
                           "w = 0\n"
                           "while w < t - 1:\n"
                           "    w += 1\n",
            "before_return": "if t > bit_length:\n"
                             "    ipow_mono(2, bit_length, t - 1)\n"
                             "if t < bit_length:\n"
                             "    pv_zero(A(result), D(result), P(result, 0), P(result, bit_length - t), 2)\n"
                             "    pv_leading_zeros(A(result), D(result), P(result, 0), P(result, bit_length - t), P(result, bit_length), 2)\n"
                             "    pv_ext(A(result), D(result), P(result, bit_length - t), A(one_array), D(one_array), P(one_array, 0), t, 2)\n",
        },
        loops={
            1: dict(binds="decimal_number != '0'", invariant={
                "gq-length": "len(gq) == len(one_array) + 1",
                "gq-head": "gq[0] == dval(old(decimal_number))",
                "gq-step": "forall(lambda j: gq[j] >= 1 and gq[j + 1] == gq[j] // 2, 0, len(one_array))",
                "gq-current": "gq[len(one_array)] == dval(decimal_number)",
                "canonical": "canon(decimal_number)",
                "bits": "forall(lambda j: one_array[j] == gq[len(one_array) - 1 - j] % 2, 0, len(one_array))",
            }, variant="dval(decimal_number)"),
            "after_loop1#1": dict(invariant={"range": "0 <= u <= t", "value": "val(one_array, 0, u, 2) == gq[t - u]"}, variant="t - u"),
            "after_loop1#2": dict(invariant={"range": "0 <= w and (w <= t - 1 or t == 0)",
                                             "lower-bound": "implies(t >= 1, gq[t - 1 - w] >= ipow(2, w))"}, variant="t - 1 - w"),
        },
        lemmas=["pv_store_frame", "pv_leading_zeros"],
    ),
    dict(
        name="dsw.operation.number_to_bit#int", function="dsw.operation.number_to_bit", variant_of="dsw.operation.number_to_bit", n_loops=2,
        params={"decimal_number": "nat", "bit_length": "nat"},
        candidates={"bit_length": list(range(0, 13)) + [16, 31, 32, 33, 63, 64, 65, 100, 129, 200]},
        returns="list_int",
        ensures={
            "length": "len(result) == bit_length",
            "bits": "digits(result, 0, len(result), 1)",
            "value": "implies(decimal_number < ipow(2, bit_length), val(result, 0, bit_length, 2) == decimal_number)",
        },
        raises={},
        ghost={
            "before_loop2": "gq = [decimal_number]",
            "loop2_end": "gq.append(decimal_number)",
            "after_loop2": "t = len(one_array)\n"
                           "u = 0\n"
                           "while u < t:\n"
                           "    u += 1\n"
                           "w = 0\n"
                           "while w < t - 1:\n"
                           "    w += 1\n",
            "before_return": "if t > bit_length:\n"
                             "    ipow_mono(2, bit_length, t - 1)\n"
                             "if t < bit_length:\n"
                             "    pv_zero(A(result), D(result), P(result, 0), P(result, bit_length - t), 2)\n"
                             "    pv_leading_zeros(A(result), D(result), P(result, 0), P(result, bit_length - t), P(result, bit_length), 2)\n"
                             "    pv_ext(A(result), D(result), P(result, bit_length - t), A(one_array), D(one_array), P(one_array, 0), t, 2)\n",
        },
        loops={
            2: dict(binds="decimal_number > 0", invariant={
                "gq-length": "len(gq) == len(one_array) + 1",
                "gq-head": "gq[0] == old(decimal_number)",
                "gq-step": "forall(lambda j: gq[j] >= 1 and gq[j + 1] == gq[j] // 2, 0, len(one_array))",
                "gq-current": "gq[len(one_array)] == decimal_number and decimal_number >= 0",
                "bits": "forall(lambda j: one_array[j] == gq[len(one_array) - 1 - j] % 2, 0, len(one_array))",
            }, variant="decimal_number"),
            "after_loop2#1": dict(invariant={"range": "0 <= u <= t", "value": "val(one_array, 0, u, 2) == gq[t - u]"}, variant="t - u"),
            "after_loop2#2": dict(invariant={"range": "0 <= w and (w <= t - 1 or t == 0)",
                                             "lower-bound": "implies(t >= 1, gq[t - 1 - w] >= ipow(2, w))"}, variant="t - 1 - w"),
        },
        lemmas=["pv_store_frame", "pv_leading_zeros"],
    ),
    # ------------------------------------------------------------------ C16: dna_to_number / number_to_dna
    dict(name="dsw.operation.dna_to_number", abstract=True,
         dispatch={"param": "is_string", "true": "dsw.operation.dna_to_number#str", "false": "dsw.operation.dna_to_number#int"}),
    dict(
        name="dsw.operation.dna_to_number#str", function="dsw.operation.dna_to_number", variant_of="dsw.operation.dna_to_number", n_loops=2,
        params={"dna_sequence": "str", "is_string": "true"},
        returns="str",
        ensures={"canonical": "canon(result)", "value": "dval(result) == dnav(dna_sequence, 0, len(dna_sequence))"},
        raises={"ValueError": "not is_dna(dna_sequence)"},
        loops={1: dict(binds="nucleotide_values", invariant={
            "canonical": "canon(decimal_number)", "horner": "dval(decimal_number) == dnav(dna_sequence, 0, _i)"})},
    ),
    dict(
        name="dsw.operation.dna_to_number#int", function="dsw.operation.dna_to_number", variant_of="dsw.operation.dna_to_number", n_loops=2,
        params={"dna_sequence": "str", "is_string": "false"},
        returns="int",
        ensures={"value": "result == dnav(dna_sequence, 0, len(dna_sequence))"},
        raises={"ValueError": "not is_dna(dna_sequence)"},
        loops={2: dict(binds="nucleotide_values", invariant={"horner": "decimal_number == dnav(dna_sequence, 0, _i)"})},
    ),
    dict(name="dsw.operation.number_to_dna", abstract=True,
         dispatch={"param": "decimal_number", "str": "dsw.operation.number_to_dna#str", "int": "dsw.operation.number_to_dna#int",
                   "zero": "dsw.operation.number_to_dna#int"}),
    dict(
        name="dsw.operation.number_to_dna#str", function="dsw.operation.number_to_dna", variant_of="dsw.operation.number_to_dna", n_loops=2,
        params={"decimal_number": "str", "dna_length": "nat"},
        candidates={"dna_length": list(range(0, 13)) + [16, 31, 32, 33, 63, 64, 65, 100, 129, 200]},
        requires={"canonical-number": "canon(decimal_number)"},
        types={"one_array": "list_char"},
        returns="str",
        ensures={
            "length": "implies(dval(decimal_number) < ipow(4, dna_length), len(result) == dna_length)",
            "dna": "is_dna(result)",
            "value": "implies(dval(decimal_number) < ipow(4, dna_length), dnav(result, 0, dna_length) == dval(decimal_number))",
        },
        raises={},
        ghost={
            "before_loop1": "gq = [dval(decimal_number)]\npv_bound(A(decimal_number), D(decimal_number), P(decimal_number, 0), P(decimal_number, len(decimal_number)), 10)",
            "loop1_begin": "pv_positive(A(decimal_number), D(decimal_number), P(decimal_number, 0), P(decimal_number, len(decimal_number)), 10)",
            "loop1_end": "gq.append(dval(decimal_number))",
            "after_loop1": "t = len(one_array)\n"
                           "arr1 = one_array\n"
                           "u = 0\n"
                           "while u < t:\n"
                           "    u += 1\n"
                           "w = 0\n"
                           "while w < t - 1:\n"
                           "    w += 1\n",
            "before_return": "if t > dna_length:\n"
                             "    ipow_mono(4, dna_length, t - 1)\n"
                             "if t <= dna_length:\n"
                             "    pv_zero(A(codes(result)), 0, P(result, 0), P(result, dna_length - t), 4)\n"
                             "    pv_leading_zeros(A(codes(result)), 0, P(result, 0), P(result, dna_length - t), P(result, dna_length), 4)\n"
                             "    pv_ext(A(codes(result)), 0, P(result, dna_length - t), A(codes(arr1)), 0, P(arr1, 0), t, 4)\n",
        },
        loops={
            1: dict(binds="decimal_number != '0'", invariant={
                "gq-length": "len(gq) == len(one_array) + 1",
                "gq-head": "gq[0] == dval(old(decimal_number))",
                "gq-step": "forall(lambda j: gq[j] >= 1 and gq[j + 1] == gq[j] // 4, 0, len(one_array))",
                "gq-current": "gq[len(one_array)] == dval(decimal_number) and dval(decimal_number) >= 0",
                "canonical": "canon(decimal_number)",
                "dna": "is_dna(one_array)",
                "codes": "forall(lambda j: code(one_array[j]) == gq[len(one_array) - 1 - j] % 4, 0, len(one_array))",
            }, variant="dval(decimal_number)"),
            "after_loop1#1": dict(invariant={"range": "0 <= u <= t", "value": "dnav(one_array, 0, u) == gq[t - u]"}, variant="t - u"),
            "after_loop1#2": dict(invariant={"range": "0 <= w and (w <= t - 1 or t == 0)",
                                             "lower-bound": "implies(t >= 1, gq[t - 1 - w] >= ipow(4, w))"}, variant="t - 1 - w"),
        },
        lemmas=["pv_store_frame", "pv_leading_zeros"],
    ),
    dict(
        name="dsw.operation.number_to_dna#int", function="dsw.operation.number_to_dna", variant_of="dsw.operation.number_to_dna", n_loops=2,
        params={"decimal_number": "nat", "dna_length": "nat"},
        candidates={"dna_length": list(range(0, 13)) + [16, 31, 32, 33, 63, 64, 65, 100, 129, 200]},
        requires={},
        types={"one_array": "list_char"},
        returns="str",
        ensures={
            "length": "implies(decimal_number < ipow(4, dna_length), len(result) == dna_length)",
            "dna": "is_dna(result)",
            "value": "implies(decimal_number < ipow(4, dna_length), dnav(result, 0, dna_length) == decimal_number)",
        },
        raises={},
        ghost={
            "before_loop2": "gq = [decimal_number]",
            
            "loop2_end": "gq.append(decimal_number)",
            "after_loop2": "t = len(one_array)\n"
                           "arr1 = one_array\n"
                           "u = 0\n"
                           "while u < t:\n"
                           "    u += 1\n"
                           "w = 0\n"
                           "while w < t - 1:\n"
                           "    w += 1\n",
            "before_return": "if t > dna_length:\n"
                             "    ipow_mono(4, dna_length, t - 1)\n"
                             "if t <= dna_length:\n"
                             "    pv_zero(A(codes(result)), 0, P(result, 0), P(result, dna_length - t), 4)\n"
                             "    pv_leading_zeros(A(codes(result)), 0, P(result, 0), P(result, dna_length - t), P(result, dna_length), 4)\n"
                             "    pv_ext(A(codes(result)), 0, P(result, dna_length - t), A(codes(arr1)), 0, P(arr1, 0), t, 4)\n",
        },
        loops={
            2: dict(binds="decimal_number > 0", invariant={
                "gq-length": "len(gq) == len(one_array) + 1",
                "gq-head": "gq[0] == old(decimal_number)",
                "gq-step": "forall(lambda j: gq[j] >= 1 and gq[j + 1] == gq[j] // 4, 0, len(one_array))",
                "gq-current": "gq[len(one_array)] == decimal_number and decimal_number >= 0",
                
                "dna": "is_dna(one_array)",
                "codes": "forall(lambda j: code(one_array[j]) == gq[len(one_array) - 1 - j] % 4, 0, len(one_array))",
            }, variant="decimal_number"),
            "after_loop2#1": dict(invariant={"range": "0 <= u <= t", "value": "dnav(one_array, 0, u) == gq[t - u]"}, variant="t - u"),
            "after_loop2#2": dict(invariant={"range": "0 <= w and (w <= t - 1 or t == 0)",
                                             "lower-bound": "implies(t >= 1, gq[t - 1 - w] >= ipow(4, w))"}, variant="t - 1 - w"),
        },
        lemmas=["pv_store_frame", "pv_leading_zeros"],
    ),
]


# ------------------------------------------------------------------------------------------------------------------ C20: the progress monitor never raises
def monitor_variant(started):
    return dict(
        name="dsw.operation.Monitor.__call__#" + ("running" if started else "idle"), function="dsw.operation.Monitor.__call__",
        variant_of="dsw.operation.Monitor.__call__", n_loops=1, self_class="Monitor", self_config={"started": started},
        params={"self": "self", "current_state": "nat", "total_state": "nat", "extra": "none"},
        # the precondition every verified call site is checked against (pyvc/calls.py monitor_call): nothing to report yet, or a non-empty job
        requires={"nothing-yet-or-a-non-empty-job": "current_state == 0 or total_state != 0"},
        returns="none", ensures={"returns-nothing": "isnone(result)"}, raises={},
        # the percentage, the remaining time and the text are for display only: floats are opaque (finite), the progress bar loop and the text are not tracked
        opaque_floats=True, havoc_loops=(1,), types={"string": "str"}, opaque_tail=("string",),
        modifies=["self"],
    )


CONTRACTS = CONTRACTS + [monitor_variant(False), monitor_variant(True)]
