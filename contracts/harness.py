"""Property harnesses: the statements of properties.jsonl written as client code in the Python subset.  Under pyvc every call of a
repository function is replaced by its CONTRACT (so a harness proves 'the property follows from the contracts'), lemma calls are
explicit instantiations of proved lemmas.  Under CPython the same calls hit the real functions (bounded drivers, replay)."""

SOURCE = {}
CONTRACTS = []


def harness(name, params, src, requires=None, loops=None, lemmas=None, ghost_params=None, raises=None, split=None, self_config=None):
    SOURCE["harness." + name] = src.strip("\n") + "\n"
    CONTRACTS.append(dict(name="harness." + name, params=params, requires=requires or {}, ensures={}, raises=raises or {}, returns="none",
                          loops=loops or {}, lemmas=lemmas or [], variant_of="harness", ghost_params=ghost_params or {}, split=split or {}, self_config=self_config or {}))


# ---------------------------------------------------------------------------------------------------------------- C16
harness("c16_bits_roundtrip_str", {"bits": "bits"}, '''
def c16_bits_roundtrip_str(bits):
    n = bit_to_number(bits, True)
    pv_bound(A(bits), D(bits), P(bits, 0), P(bits, len(bits)), 2)
    back = number_to_bit(n, len(bits))
    pv_inj(A(back), D(back), P(back, 0), A(bits), D(bits), P(bits, 0), len(bits), 2)
    assert back == bits, "number_to_bit(bit_to_number(b, True), len(b)) == b"
''')

harness("c16_bits_roundtrip_int", {"bits": "bits"}, '''
def c16_bits_roundtrip_int(bits):
    n = bit_to_number(bits, False)
    pv_bound(A(bits), D(bits), P(bits, 0), P(bits, len(bits)), 2)
    back = number_to_bit(n, len(bits))
    pv_inj(A(back), D(back), P(back, 0), A(bits), D(bits), P(bits, 0), len(bits), 2)
    assert back == bits, "number_to_bit(bit_to_number(b, False), len(b)) == b"
''')

harness("c16_bits_paths_agree", {"bits": "bits"}, '''
def c16_bits_paths_agree(bits):
    s = bit_to_number(bits, True)
    i = bit_to_number(bits, False)
    assert dval(s) == i and canon(s), "string and integer paths give the same value"
''')

harness("c16_number_bits_back", {"n": "nat", "width": "nat"}, '''
def c16_number_bits_back(n, width):
    r = number_to_bit(n, width)
    m = bit_to_number(r, False)
    assert m == n and len(r) == width, "bit_to_number(number_to_bit(n, L)) == n for n < 2**L"
''', requires={"fits": "n < ipow(2, width)"})

harness("c16_bits_left_padding", {"n": "nat", "width": "nat", "p": "nat"}, '''
def c16_bits_left_padding(n, width, p):
    r = number_to_bit(n, width)
    ipow_mono(2, width, width + p)
    r2 = number_to_bit(n, width + p)
    padded = [0] * p + r
    pv_zero(A(padded), D(padded), P(padded, 0), P(padded, p), 2)
    pv_leading_zeros(A(padded), D(padded), P(padded, 0), P(padded, p), P(padded, p + width), 2)
    pv_ext(A(padded), D(padded), P(padded, p), A(r), D(r), P(r, 0), width, 2)
    pv_inj(A(r2), D(r2), P(r2, 0), A(padded), D(padded), P(padded, 0), width + p, 2)
    assert r2 == padded, "a wider rendering is the narrower one left-padded with 0"
''', requires={"fits": "n < ipow(2, width)"})

DNA_EQ_LOOP = '''
    j = 0
    while j < len(dna):
        assert codes(back)[j] == codes(dna)[j]
        j += 1
'''
DNA_LOOPS = {1: dict(invariant={"range": "0 <= j <= len(dna) and len(back) == len(dna)", "equal-so-far": "forall(lambda q: back[q] == dna[q], 0, j)"},
                     variant="len(dna) - j")}

harness("c16_dna_roundtrip_str", {"dna": "dna"}, '''
def c16_dna_roundtrip_str(dna):
    n = dna_to_number(dna, True)
    pv_bound(A(codes(dna)), 0, P(dna, 0), P(dna, len(dna)), 4)
    back = number_to_dna(n, len(dna))
    pv_inj(A(codes(back)), 0, P(back, 0), A(codes(dna)), 0, P(dna, 0), len(dna), 4)
''' + DNA_EQ_LOOP + '''
    assert back == dna, "number_to_dna(dna_to_number(d, True), len(d)) == d"
''', loops=DNA_LOOPS)

harness("c16_dna_roundtrip_int", {"dna": "dna"}, '''
def c16_dna_roundtrip_int(dna):
    n = dna_to_number(dna, False)
    pv_bound(A(codes(dna)), 0, P(dna, 0), P(dna, len(dna)), 4)
    back = number_to_dna(n, len(dna))
    pv_inj(A(codes(back)), 0, P(back, 0), A(codes(dna)), 0, P(dna, 0), len(dna), 4)
''' + DNA_EQ_LOOP + '''
    assert back == dna, "number_to_dna(dna_to_number(d, False), len(d)) == d"
''', loops=DNA_LOOPS)

harness("c16_dna_paths_agree", {"dna": "dna"}, '''
def c16_dna_paths_agree(dna):
    s = dna_to_number(dna, True)
    i = dna_to_number(dna, False)
    assert dval(s) == i and canon(s), "string and integer paths give the same value"
''')

harness("c16_number_dna_back", {"n": "nat", "width": "nat"}, '''
def c16_number_dna_back(n, width):
    r = number_to_dna(n, width)
    m = dna_to_number(r, False)
    assert m == n and len(r) == width, "dna_to_number(number_to_dna(n, L)) == n for n < 4**L"
''', requires={"fits": "n < ipow(4, width)"})

harness("c16_dna_left_padding", {"n": "nat", "width": "nat", "p": "nat"}, '''
def c16_dna_left_padding(n, width, p):
    dna = number_to_dna(n, width)
    ipow_mono(4, width, width + p)
    back = number_to_dna(n, width + p)
    padded = "A" * p + dna
    pv_zero(A(codes(padded)), 0, P(padded, 0), P(padded, p), 4)
    pv_leading_zeros(A(codes(padded)), 0, P(padded, 0), P(padded, p), P(padded, p + width), 4)
    pv_ext(A(codes(padded)), 0, P(padded, p), A(codes(dna)), 0, P(dna, 0), width, 4)
    pv_inj(A(codes(back)), 0, P(back, 0), A(codes(padded)), 0, P(padded, 0), width + p, 4)
    j = 0
    while j < width + p:
        assert codes(back)[j] == codes(padded)[j]
        j += 1
    assert back == padded, "a wider rendering is the narrower one left-padded with A"
''', requires={"fits": "n < ipow(4, width)"},
        loops={1: dict(invariant={"range": "0 <= j <= width + p and len(back) == width + p and len(padded) == width + p",
                                  "equal-so-far": "forall(lambda q: back[q] == padded[q], 0, j)"}, variant="width + p - j")})


# ---------------------------------------------------------------------------------------------------------------- C13
harness("c13_latter_is_shift_append", {"s": "dna", "j": "nat"}, '''
def c13_latter_is_shift_append(s, j):
    k = len(s)
    v = dna_to_number(s, False)
    pv_bound(A(codes(s)), 0, P(s, 0), P(s, k), 4)
    lat = obtain_latters(v, k)
    t = s[1:] + "ACGT"[j]
    w = dna_to_number(t, False)
    pv_split(A(codes(s)), 0, P(s, 0), P(s, 1), P(s, k), 4)
    pv_bound(A(codes(s)), 0, P(s, 1), P(s, k), 4)
    mod_small(code(s[0]), ipow(4, k - 1), dnav(s, 1, k))
    assert lat[j] == w, "j-th successor index == value of (k-mer without its first nucleotide) + j-th nucleotide"
''', requires={"kmer": "len(s) >= 1", "nucleotide": "j < 4"}, lemmas=["pv_store_frame"])

harness("c13_former_is_shift_prepend", {"s": "dna", "f": "nat"}, '''
def c13_former_is_shift_prepend(s, f):
    k = len(s)
    v = dna_to_number(s, False)
    pv_bound(A(codes(s)), 0, P(s, 0), P(s, k), 4)
    fm = obtain_formers(v, k)
    t = "ACGT"[f] + s[:-1]
    w = dna_to_number(t, False)
    pv_split(A(codes(t)), 0, P(t, 0), P(t, 1), P(t, k), 4)
    assert fm[f] == w, "f-th predecessor index == value of f-th nucleotide + (k-mer without its last nucleotide)"
''', requires={"kmer": "len(s) >= 1", "nucleotide": "f < 4"}, lemmas=["pv_store_frame"])

harness("c13_successor_of_predecessor", {"v": "nat", "k": "nat", "f": "nat"}, '''
def c13_successor_of_predecessor(v, k, f):
    ipow_mono(4, 0, k - 1)
    fm = obtain_formers(v, k)
    u = fm[f]
    lat = obtain_latters(u, k)
    mod_small(f, ipow(4, k - 1), v // 4)
    assert lat[v % 4] == v, "v is the (v mod 4)-th successor of each of its predecessors"
''', requires={"order": "k >= 1", "vertex": "v < ipow(4, k)", "column": "f < 4"})

harness("c13_predecessor_of_successor", {"u": "nat", "k": "nat", "j": "nat"}, '''
def c13_predecessor_of_successor(u, k, j):
    ipow_mono(4, 0, k - 1)
    lat = obtain_latters(u, k)
    v = lat[j]
    fm = obtain_formers(v, k)
    q = u // ipow(4, k - 1)
    assert 0 <= q and q < 4 and fm[q] == u, "u is the (leading nucleotide of u)-th predecessor of each of its successors"
''', requires={"order": "k >= 1", "vertex": "u < ipow(4, k)", "column": "j < 4"})


# ---------------------------------------------------------------------------------------------------------------- C07
C07_SUM = '''
    cs = codes(s)
    ct = codes(t)
'''

harness("c07_substitution_changes_check", {"s": "dna", "p": "nat", "j": "nat", "n": "nat"}, '''
def c07_substitution_changes_check(s, p, j, n):
    t = s[:p] + "ACGT"[j] + s[p + 1:]
    a = set_vt(s, n)
    b = set_vt(t, n)
    cs = codes(s)
    ct = codes(t)
    ssum_split(A(cs), 0, P(cs, 0), P(cs, p), P(cs, len(s)))
    ssum_split(A(cs), 0, P(cs, p), P(cs, p + 1), P(cs, len(s)))
    ssum_split(A(ct), 0, P(ct, 0), P(ct, p), P(ct, len(s)))
    ssum_split(A(ct), 0, P(ct, p), P(ct, p + 1), P(ct, len(s)))
    ssum_ext(A(ct), 0, P(ct, 0), A(cs), 0, P(cs, 0), p)
    ssum_ext(A(ct), 0, P(ct, p + 1), A(cs), 0, P(cs, p + 1), len(s) - p - 1)
    assert ssum(ct, 0, len(s)) == ssum(cs, 0, len(s)) - cs[p] + j, "sum-after-substitution"
    assert a[0] != b[0], "first check symbol differs"
    assert a != b, "a single substitution always changes the check"
''', requires={"position": "p < len(s)", "nucleotide": "j < 4 and j != code(s[p])", "check-length": "n >= 1"})

harness("c07_insertion_changes_check", {"s": "dna", "p": "nat", "j": "nat", "n": "nat"}, '''
def c07_insertion_changes_check(s, p, j, n):
    t = s[:p] + "ACGT"[j] + s[p:]
    a = set_vt(s, n)
    b = set_vt(t, n)
    cs = codes(s)
    ct = codes(t)
    ssum_split(A(cs), 0, P(cs, 0), P(cs, p), P(cs, len(s)))
    ssum_split(A(ct), 0, P(ct, 0), P(ct, p), P(ct, len(s) + 1))
    ssum_split(A(ct), 0, P(ct, p), P(ct, p + 1), P(ct, len(s) + 1))
    ssum_ext(A(ct), 0, P(ct, 0), A(cs), 0, P(cs, 0), p)
    ssum_ext(A(ct), 0, P(ct, p + 1), A(cs), 0, P(cs, p), len(s) - p)
    assert ssum(ct, 0, len(s) + 1) == ssum(cs, 0, len(s)) + j, "sum-after-insertion"
    assert a[0] != b[0], "first check symbol differs"
    assert a != b, "a single insertion of C, G or T always changes the check"
''', requires={"position": "p <= len(s)", "nucleotide": "1 <= j and j < 4", "check-length": "n >= 1"})

harness("c07_deletion_changes_check", {"s": "dna", "p": "nat", "n": "nat"}, '''
def c07_deletion_changes_check(s, p, n):
    t = s[:p] + s[p + 1:]
    a = set_vt(s, n)
    b = set_vt(t, n)
    cs = codes(s)
    ct = codes(t)
    ssum_split(A(cs), 0, P(cs, 0), P(cs, p), P(cs, len(s)))
    ssum_split(A(cs), 0, P(cs, p), P(cs, p + 1), P(cs, len(s)))
    ssum_split(A(ct), 0, P(ct, 0), P(ct, p), P(ct, len(s) - 1))
    ssum_ext(A(ct), 0, P(ct, 0), A(cs), 0, P(cs, 0), p)
    ssum_ext(A(ct), 0, P(ct, p), A(cs), 0, P(cs, p + 1), len(s) - p - 1)
    assert ssum(ct, 0, len(s) - 1) == ssum(cs, 0, len(s)) - cs[p], "sum-after-deletion"
    assert a[0] != b[0], "first check symbol differs"
    assert a != b, "a single deletion of C, G or T always changes the check"
''', requires={"position": "p < len(s)", "nucleotide": "code(s[p]) >= 1", "check-length": "n >= 1"})


# ---------------------------------------------------------------------------------------------------------------- C01 / C05 / C06 (normal mode)
WFH = {
    "graph": "k >= 1 and is_accessor(accessor, k)",
    "start": "start_index < ipow(4, k) and R[start_index] != 0",
    "ghost-shapes": "len(R) == ipow(4, k) and len(rank) == ipow(4, k)",
    "reachable-closed": "forall(lambda v: implies(0 <= v and v < ipow(4, k) and R[v] != 0, deg(accessor, v) >= 1 and rank[v] >= 0 and "
                        "forall(lambda j: implies(accessor[v][j] >= 0, R[accessor[v][j]] != 0 and (deg(accessor, v) > 1 or rank[accessor[v][j]] < rank[v])), 0, 4)), "
                        "0, ipow(4, k), lambda v: here(v))",
}


def c01_normal(shuffled, with_check):
    name = "c01_roundtrip_normal" + ("_table" if shuffled else "") + ("_vt" if with_check else "")
    sh = "shuffles" if shuffled else "None"
    enc = ("s, chk = encode(bits, accessor, start_index, False, n, %s)" if with_check else "s = encode(bits, accessor, start_index, False, 0, %s)") % sh
    dec = "out = decode(s, len(bits), accessor, start_index, False, %s, %s)" % ("chk" if with_check else "None", sh)
    bij = ("digit_bijection_table(row(accessor, encode_vtx[t]), row(shuffles, encode_vtx[t]), encode_gq[t] % deg(accessor, encode_vtx[t]))" if shuffled else
           "digit_bijection(row(accessor, encode_vtx[t]), encode_gq[t] % deg(accessor, encode_vtx[t]))")
    src = """
def %s(bits, accessor, start_index, shuffles, k, R, rank, n):
    %s
    m = len(s)
    p = 0
    while p < m:
        mark(code(s[p]))
        p += 1
    %s
    q = 0
    while q < m:
        mark(code(s[q]))
        q += 1
    t = 0
    while t < m:
        mark(code(s[t]))
        if deg(accessor, encode_vtx[t]) > 1:
            %s
        assert link(decode_dgp, decode_ddp, encode_gq, t), "digit-read-back"
        t += 1
    cut(forall(lambda i: link(decode_dgp, decode_ddp, encode_gq, i), 0, m, lambda i: decode_ddp[i]),
        encode_gq[0] == val(bits, 0, len(bits), 2), encode_gq[m] == 0, m >= 0,
        implies(lv(decode_dgp, decode_ddp, 0, m) < ipow(2, len(bits)), val(out, 0, len(bits), 2) == lv(decode_dgp, decode_ddp, 0, m)),
        len(out) == len(bits), digits(out, 0, len(out), 1))
    g = m
    while g > 0:
        g -= 1
    hv_lv_dual(A(decode_dgp), A(decode_ddp), 0, m)
    pv_bound(A(bits), D(bits), P(bits, 0), P(bits, len(bits)), 2)
    pv_inj(A(out), D(out), P(out, 0), A(bits), D(bits), P(bits, 0), len(bits), 2)
    assert out == bits, "decode(encode(message)) == message"
""" % (name, enc, dec, bij)
    req = dict(WFH)
    if shuffled:
        req["table"] = "is_table(shuffles, k)"
    if with_check:
        req["check-length"] = "n >= 1"
    harness(name, {"bits": "nd_bits", "accessor": "mat(ipow(4, k), 4)", "start_index": "nat",
                   "shuffles": "mat(ipow(4, k), 4)" if shuffled else "none", "R": "nd_bits", "rank": "list_int", "n": "nat"},
            src, requires=req, ghost_params={"k": "nat"},
            loops={
                1: dict(invariant={"range": "0 <= p <= m",      # the strand is a walk: decode cannot raise
                                   "walk": "walkv(accessor, s, start_index, p) == encode_vtx[p] and encode_vtx[p] >= 0",
                                   "dna": "is_dna(s, 0, p)"}, variant="m - p"),
                2: dict(invariant={"range": "0 <= q <= m",      # decode visits the same vertices as encode
                                   "same-vertices": "forall(lambda i: decode_vtxd[i] == encode_vtx[i], 0, q + 1)"}, variant="m - q"),
                3: dict(invariant={"range": "0 <= t <= m",      # the digit read back at each position is the one encode wrote (C18 bijection)
                                   "digits-read-back": "forall(lambda i: link(decode_dgp, decode_ddp, encode_gq, i), 0, t, lambda i: decode_ddp[i])"},
                        variant="m - t"),
                4: dict(invariant={"range": "0 <= g <= m",      # hence the right-Horner value of the digits is the quotient chain of encode
                                   "horner": "hv(decode_dgp, decode_ddp, g, m) == encode_gq[g]"}, variant="g"),
            })


for _sh in (False, True):
    for _vt in (False, True):
        c01_normal(_sh, _vt)


# ---------------------------------------------------------------------------------------------------------------- C02 (chain, thresholds 2..4)
SUCC_K = "succ(u, j, k)"
def c02_chain(shuffled, fast=False):
  nm = "c02_chain" + ("_fast" if fast else "") + ("_table" if shuffled else "")
  step = ("fast_step(accessor, " + ("shuffles" if shuffled else "None") + ", bits, encode_loc, encode_vtx, s, p)") if fast else \
         ("enc_step(accessor, " + ("shuffles" if shuffled else "None") + ", encode_gq, encode_vtx, s, p)")
  # fast mode is defined on graphs without out-degree 3 only: the claim is made for the generated graphs that have none
  guard = " and forall(lambda v: deg(accessor, v) != 3, 0, ipow(4, k), lambda v: here(v))" if fast else ""
  sh = "shuffles" if shuffled else "None"
  rq = {"order": "k >= 1", "threshold": "2 <= t and t <= 4", "start": "start_index < ipow(4, k)"}
  if shuffled:
    rq["table"] = "is_table(shuffles, k)"
  harness(nm, {"f": "obj:AbstractFilter", "t": "nat", "bits": "nd_bits", "start_index": "nat", "w": "nat", "shuffles": "mat(ipow(4, k), 4)" if shuffled else "none"}, '''
def ''' + nm + '''(f, k, t, bits, start_index, w, shuffles):
    ipow_mono(4, 0, k - 1)
    mask = find_vertices(k, f)
    S = [0] * ipow(4, k)
    desc, accessor = connect_coding_graph(k, mask, t)
    dv = 0
    while dv < ipow(4, k):
        mark(dv)
        assert implies(desc[dv] != 0, deg(accessor, dv) >= 2), "retained-vertices-branch"
        dv += 1
    cut(forall(lambda u: forall(lambda j: accessor[u][j] == ite(desc[u] != 0 and desc[''' + SUCC_K + '''] != 0, ''' + SUCC_K + ''', -1), 0, 4), 0, ipow(4, k), lambda u: accessor[u]),
        forall(lambda u: (desc[u] != 0) == (accessor[u][0] >= 0 or accessor[u][1] >= 0 or accessor[u][2] >= 0 or accessor[u][3] >= 0), 0, ipow(4, k), lambda u: accessor[u]),
        forall(lambda v: implies(desc[v] != 0, mask[v] != 0), 0, ipow(4, k)),
        forall(lambda v: implies(desc[v] != 0, deg(accessor, v) >= 2), 0, ipow(4, k), lambda v: desc[v]),
        forall(lambda i: (mask[i] != 0) == accepts(f, i, k), 0, ipow(4, k)),
        len(desc) == ipow(4, k), len(mask) == ipow(4, k), ipow(4, k) == 4 * ipow(4, k - 1), ipow(4, k - 1) >= 1,
        forall(lambda v: desc[v] == 0 or desc[v] == 1, 0, len(desc)))
    R = desc
    rank = [0] * ipow(4, k)
    if desc[start_index] != 0''' + guard + ''':
        mark(start_index)
        assert is_accessor(accessor, k), "generated-graph-is-an-accessor"
        s = encode(bits, accessor, start_index, ''' + ("True" if fast else "False") + ''', 0, ''' + sh + ''')
        m = len(s)
        prefix = number_to_dna(start_index, k)
        cut(forall(lambda u: forall(lambda j: accessor[u][j] == ite(desc[u] != 0 and desc[''' + SUCC_K + '''] != 0, ''' + SUCC_K + ''', -1), 0, 4), 0, ipow(4, k), lambda u: accessor[u]),
            forall(lambda v: implies(desc[v] != 0, mask[v] != 0), 0, ipow(4, k)),
            forall(lambda i: (mask[i] != 0) == accepts(f, i, k), 0, ipow(4, k)),
            forall(lambda p: ''' + step + ''', 0, m, lambda p: s[p]),
            len(encode_vtx) == m + 1, encode_vtx[0] == start_index, desc[start_index] != 0, is_accessor(accessor, k), len(desc) == ipow(4, k),
            len(mask) == ipow(4, k), m >= 0, ipow(4, k) == 4 * ipow(4, k - 1), ipow(4, k - 1) >= 1,
            len(prefix) == k, is_dna(prefix), dnav(prefix, 0, k) == start_index)
        full = prefix + s
        pv_ext(A(codes(full)), 0, P(full, 0), A(codes(prefix)), 0, P(prefix, 0), k, 4)
        i = 0
        while i < m and i < w:
            mark(code(s[i]))
            assert full[k + i] == s[i] and codes(full)[k + i] == code(s[i]) and 0 <= code(s[i]) and code(s[i]) <= 3, "entering-nucleotide"
            assert encode_vtx[i + 1] == (encode_vtx[i] % ipow(4, k - 1)) * 4 + code(s[i]), "next-vertex-is-the-shift-successor"
            window_shift(A(codes(full)), 0, P(full, i), k)
            i += 1
        if w <= m:
            assert accepts(f, dnav(full, w, w + k), k), "every window of kmer(start) + strand is accepted by the filter"
''', requires=rq, ghost_params={"k": "nat"},
        loops={1: dict(invariant={"range": "0 <= dv <= ipow(4, k)",
                                  "branching-so-far": "forall(lambda v: implies(desc[v] != 0, deg(accessor, v) >= 2), 0, dv, lambda v: desc[v])"},
                       variant="ipow(4, k) - dv"),
               2: dict(invariant={
            "range": "0 <= i <= m and (i <= w or w < 0) and len(full) == k + m and is_dna(full, 0, k + i)",
            "window-is-the-vertex": "dnav(full, i, i + k) == encode_vtx[i]",
            "vertex-is-retained": "desc[encode_vtx[i]] != 0 and 0 <= encode_vtx[i] and encode_vtx[i] < ipow(4, k)"}, variant="m - i")},
        lemmas=["pv_store_frame"], raises={"ValueError": None})


c02_chain(False)
c02_chain(True)
c02_chain(False, True)
c02_chain(True, True)


# ---------------------------------------------------------------------------------------------------------------- C01 (fast mode)
def c01_fast(shuffled, with_check):
    name = "c01_roundtrip_fast" + ("_table" if shuffled else "") + ("_vt" if with_check else "")
    sh = "shuffles" if shuffled else "None"
    enc = ("s, chk = encode(bits, accessor, start_index, True, n, %s)" if with_check else "s = encode(bits, accessor, start_index, True, 0, %s)") % sh
    dec = "out = decode(s, len(bits), accessor, start_index, True, %s, %s)" % ("chk" if with_check else "None", sh)
    bij = ("digit_bijection_table(row(accessor, encode_vtx[t]), row(shuffles, encode_vtx[t]), "
           "ite(deg(accessor, encode_vtx[t]) == 4, 2 * bits[encode_loc[t]] + ite(encode_loc[t] + 1 < len(bits), bits[encode_loc[t] + 1], 0), bits[encode_loc[t]]))"
           if shuffled else
           "digit_bijection(row(accessor, encode_vtx[t]), "
           "ite(deg(accessor, encode_vtx[t]) == 4, 2 * bits[encode_loc[t]] + ite(encode_loc[t] + 1 < len(bits), bits[encode_loc[t] + 1], 0), bits[encode_loc[t]]))")
    src = """
def %s(bits, accessor, start_index, shuffles, k, R, rank, n):
    %s
    m = len(s)
    i = 0
    while i < m:
        mark(code(s[i]))
        mark(i)
        i += 1
    %s
    %s
    q = 0
    while q < m:
        mark(code(s[q]))
        q += 1
    t = 0
    while t < m:
        mark(code(s[t]))
        mark(encode_vtx[t])
        if deg(accessor, encode_vtx[t]) > 1:
            %s
        assert decode_dgp[t] == deg(accessor, encode_vtx[t]) and decode_locd[t] == encode_loc[t] and encode_loc[t] < len(bits), "same-radix-and-cursor"
        if deg(accessor, encode_vtx[t]) == 4:
            assert decode_ddp[t] == 2 * bits[encode_loc[t]] + ite(encode_loc[t] + 1 < len(bits), bits[encode_loc[t] + 1], 0), "digit-read-back-4"
            assert out[encode_loc[t]] == bits[encode_loc[t]], "first-cell-4"
            if encode_loc[t] + 1 < len(bits):
                assert out[encode_loc[t] + 1] == bits[encode_loc[t] + 1], "second-cell-4"
        if deg(accessor, encode_vtx[t]) == 2:
            assert decode_ddp[t] == bits[encode_loc[t]], "digit-read-back-2"
            assert out[encode_loc[t]] == bits[encode_loc[t]], "cell-2"
        # only the facts the invariant needs survive to the end of the body (the quantified scheme facts are heavy)
        cut(forall(lambda c: implies(c < encode_loc[t], out[c] == bits[c]), 0, len(bits), lambda c: out[c]),
            0 <= t and t < m, 0 <= encode_loc[t] and encode_loc[t] < len(bits), len(out) == len(bits),
            encode_loc[t + 1] == encode_loc[t] + ite(deg(accessor, encode_vtx[t]) == 4, 2, ite(deg(accessor, encode_vtx[t]) == 2, 1, 0)),
            implies(deg(accessor, encode_vtx[t]) >= 2, out[encode_loc[t]] == bits[encode_loc[t]]),
            implies(deg(accessor, encode_vtx[t]) == 4 and encode_loc[t] + 1 < len(bits), out[encode_loc[t] + 1] == bits[encode_loc[t] + 1]))
        t += 1
    assert out == bits, "decode(encode(message)) == message (fast mode)"
""" % (name, enc, dec, "forget('asum', 'ssum', 'codes_of')" if with_check else "pass", bij)
    from contracts.spiderweb import WF_FAST
    req = dict(WFH)
    req["reachable-closed"] = WF_FAST["reachable-closed"]
    req["no-out-degree-3"] = "forall(lambda v: deg(accessor, v) != 3, 0, ipow(4, k), lambda v: here(v))"
    if shuffled:
        req["table"] = "is_table(shuffles, k)"
    if with_check:
        req["check-length"] = "n >= 1"
    harness(name, {"bits": "nd_bits", "accessor": "mat(ipow(4, k), 4)", "start_index": "nat",
                   "shuffles": "mat(ipow(4, k), 4)" if shuffled else "none", "R": "nd_bits", "rank": "list_int", "n": "nat"},
            src, requires=req, ghost_params={"k": "nat"},
            loops={
                1: dict(invariant={"range": "0 <= i <= m",
                                   "walk": "walkv(accessor, s, start_index, i) == encode_vtx[i] and encode_vtx[i] >= 0",
                                   "cursor": "floc(accessor, s, start_index, i) == encode_loc[i]",
                                   "dna": "is_dna(s, 0, i)",
                                   "room-so-far": "forall(lambda p: implies(walkv(accessor, s, start_index, p + 1) >= 0 and "
                                                  "deg(accessor, walkv(accessor, s, start_index, p)) >= 2, floc(accessor, s, start_index, p) < len(bits)), "
                                                  "0, i, lambda p: here(p))"}, variant="m - i"),
                2: dict(invariant={"range": "0 <= q <= m",
                                   "same-vertices": "forall(lambda j: decode_vtxd[j] == encode_vtx[j] and decode_locd[j] == encode_loc[j], 0, q + 1)"},
                        variant="m - q"),
                3: dict(invariant={"range": "0 <= t <= m",
                                   "cells-read-back": "forall(lambda c: implies(c < encode_loc[t], out[c] == bits[c]), 0, len(bits), lambda c: out[c])"},
                        variant="m - t"),
            })


for _sh in (False, True):
    for _vt in (False, True):
        c01_fast(_sh, _vt)


# ---------------------------------------------------------------------------------------------------------------- C12
harness("c12_rc_code_is_reverse_complement", {"m": "dna", "i": "nat"}, '''
def c12_rc_code_is_reverse_complement(m, i):
    r = rc_code(m)
    assert len(r) == len(m) and chr_(r[i]) == comp(m[len(m) - 1 - i]), "the four replaces + reverse + upper compute the reverse complement"
''', requires={"position": "i < len(m)"})


# ---------------------------------------------------------------------------------------------------------------- C14
harness("c14_roundtrip_latter_map", {"acc0": "mat(ipow(4, k), 4)", "v": "nat", "j": "nat"}, '''
def c14_roundtrip_latter_map(acc0, k, v, j):
    lm = accessor_to_latter_map(acc0)
    back = latter_map_to_accessor(lm, k)
    cut(forall(lambda u: forall(lambda c: back[u][c] == acc0[u][c], 0, 4), 0, ipow(4, k), lambda u: back[u]), 0 <= v, v < ipow(4, k), 0 <= j, j < 4)
    assert back[v][0] == acc0[v][0] and back[v][1] == acc0[v][1] and back[v][2] == acc0[v][2] and back[v][3] == acc0[v][3], "row by row"
    assert back[v][j] == acc0[v][j], "accessor -> latter map -> accessor is the identity"
''', requires={"graph": "k >= 1 and is_accessor(acc0, k)", "entry": "v < ipow(4, k) and j < 4"}, ghost_params={"k": "nat"})


# ---------------------------------------------------------------------------------------------------------------- C04 (normal-mode tightness)
def c04_tight(shuffled):
    name = "c04_tight_normal" + ("_table" if shuffled else "")
    sh = "shuffles" if shuffled else "None"
    src = """
def %s(bits, accessor, start_index, shuffles, k, R, rank, mind):
    s = encode(bits, accessor, start_index, False, 0, %s)
    n = len(s)
    dg = []
    p = 0
    while p < n:
        mark(code(s[p]))
        mark(encode_vtx[p])
        dg.append(deg(accessor, encode_vtx[p]))
        p += 1
    if n > 0:
        mark(code(s[n - 1]))
        assert deg(accessor, encode_vtx[n - 1]) >= 2, "the last nucleotide is an information-carrying one"
        t = 0
        while t < n - 1:
            mark(code(s[t]))
            assert dg[t] >= 1 and dg[t] <= 4 and dg[t] * encode_gq[t + 1] <= encode_gq[t] and encode_gq[t + 1] >= 0, "the quotient chain divides by the out-degree"
            mul_step(wt(dg, 0, t), dg[t], wt(dg, 0, t + 1), encode_gq[t + 1], encode_gq[t])
            mul_mono(wt(dg, 0, t), mind, dg[t])
            t += 1
        mul_mono(wt(dg, 0, n - 1), 1, encode_gq[n - 1])
        assert wt(dg, 0, n - 1) <= val(bits, 0, len(bits), 2), "the product of the out-degrees met before the last step never exceeds the message value"
        pv_bound(A(bits), D(bits), P(bits, 0), P(bits, len(bits)), 2)
        if mind == 2:
            if n - 1 >= len(bits):
                ipow_mono(2, len(bits), n - 1)
            assert n <= len(bits), "an L-bit message needs at most L nucleotides when every reachable vertex has out-degree >= 2"
        if mind == 4:
            ipow_4_2(n - 1)
            if 2 * (n - 1) >= len(bits):
                ipow_mono(2, len(bits), 2 * (n - 1))
            assert 2 * n <= len(bits) + 1, "an L-bit message needs at most ceil(L/2) nucleotides on the complete graph"
""" % (name, sh)
    req = dict(WFH)
    req["minimum-out-degree"] = "forall(lambda v: implies(0 <= v and v < ipow(4, k) and R[v] != 0, deg(accessor, v) >= mind), 0, ipow(4, k), lambda v: here(v))"
    if shuffled:
        req["table"] = "is_table(shuffles, k)"
    harness(name, {"bits": "nd_bits", "accessor": "mat(ipow(4, k), 4)", "start_index": "nat",
                   "shuffles": "mat(ipow(4, k), 4)" if shuffled else "none", "R": "nd_bits", "rank": "list_int", "mind": "nat"},
            src, requires=req, ghost_params={"k": "nat"}, split={"mind": [1, 2, 4]},
            loops={
                1: dict(invariant={"range": "0 <= p <= n and len(dg) == p",
                                   "on-reachable-vertex": "0 <= encode_vtx[p] and encode_vtx[p] < ipow(4, k) and R[encode_vtx[p]] != 0",
                                   "out-degrees": "forall(lambda i: dg[i] == deg(accessor, encode_vtx[i]) and dg[i] >= mind and dg[i] >= 1, 0, p)"},
                        variant="n - p"),
                2: dict(invariant={"range": "0 <= t <= n - 1",
                                   "weight-positive": "wt(dg, 0, t) >= 1 and wt(dg, 0, t) >= ipow(mind, t)",
                                   "weight-times-quotient": "wt(dg, 0, t) * encode_gq[t] <= encode_gq[0]"}, variant="n - 1 - t"),
            })


c04_tight(False)
c04_tight(True)


def c04_steps(shuffled):
    name = "c04_step_bound_normal" + ("_table" if shuffled else "")
    sh = "shuffles" if shuffled else "None"
    src = """
def %s(bits, accessor, start_index, shuffles, k, R, rank, nv):
    s = encode(bits, accessor, start_index, False, 0, %s)
    n = len(s)
    dg = []
    p = 0
    while p < n:
        mark(code(s[p]))
        mark(encode_vtx[p])
        dg.append(deg(accessor, encode_vtx[p]))
        p += 1
    if n > 0:
        mark(start_index)
        t = 0
        c = 0
        B = 0
        while t < n - 1:
            mark(code(s[t]))
            mark(encode_vtx[t])
            mark(encode_vtx[t + 1])
            assert dg[t] == deg(accessor, encode_vtx[t]) and (dg[t] >= 2 or rank[encode_vtx[t + 1]] < rank[encode_vtx[t]]), "one-arc steps lower the rank"
            assert R[encode_vtx[t + 1]] != 0 and 0 <= rank[encode_vtx[t + 1]] and rank[encode_vtx[t + 1]] < nv, "next vertex is reachable"
            assert dg[t] >= 1 and dg[t] <= 4 and dg[t] * encode_gq[t + 1] <= encode_gq[t] and encode_gq[t + 1] >= 0, "the quotient chain divides by the out-degree"
            mul_step(wt(dg, 0, t), dg[t], wt(dg, 0, t + 1), encode_gq[t + 1], encode_gq[t])
            if dg[t] >= 2:
                mul_mono(wt(dg, 0, t), 2, dg[t])
                c += 1
                B += nv
            t += 1
        mark(code(s[n - 1]))
        mark(encode_vtx[n - 1])
        mul_mono(wt(dg, 0, n - 1), 1, encode_gq[n - 1])
        pv_bound(A(bits), D(bits), P(bits, 0), P(bits, len(bits)), 2)
        if c >= len(bits):
            ipow_mono(2, len(bits), c)
        assert c + 1 <= len(bits), "fewer branching steps than message bits"
        mul_mono(nv, c + 1, len(bits))
        assert n <= B + nv and B + nv == nv * (c + 1), "steps so far against branching steps"
        assert n <= len(bits) * nv, "encoding ends within (message length) x (vertex count) steps"
""" % (name, sh)
    req = dict(WFH)
    req["rank-below-vertex-count"] = "nv >= 1 and forall(lambda v: implies(0 <= v and v < ipow(4, k) and R[v] != 0, rank[v] < nv), 0, ipow(4, k), lambda v: here(v))"
    if shuffled:
        req["table"] = "is_table(shuffles, k)"
    harness(name, {"bits": "nd_bits", "accessor": "mat(ipow(4, k), 4)", "start_index": "nat",
                   "shuffles": "mat(ipow(4, k), 4)" if shuffled else "none", "R": "nd_bits", "rank": "list_int", "nv": "nat"},
            src, requires=req, ghost_params={"k": "nat"},
            loops={
                1: dict(invariant={"range": "0 <= p <= n and len(dg) == p",
                                   "on-reachable-vertex": "0 <= encode_vtx[p] and encode_vtx[p] < ipow(4, k) and R[encode_vtx[p]] != 0",
                                   "out-degrees": "forall(lambda i: dg[i] == deg(accessor, encode_vtx[i]) and dg[i] >= 1 and 0 <= encode_vtx[i] and "
                                                  "encode_vtx[i] < ipow(4, k) and R[encode_vtx[i]] != 0 and "
                                                  "(dg[i] >= 2 or rank[encode_vtx[i + 1]] < rank[encode_vtx[i]]), 0, p)"},
                        variant="n - p"),
                2: dict(invariant={"range": "0 <= t <= n - 1 and c >= 0",
                                   "branching-steps-times-vertex-count": "B == c * nv",
                                   "weight": "wt(dg, 0, t) >= 1 and wt(dg, 0, t) >= ipow(2, c)",
                                   "weight-times-quotient": "wt(dg, 0, t) * encode_gq[t] <= encode_gq[0]",
                                   "potential": "t + rank[encode_vtx[t]] <= B + nv - 1"}, variant="n - 1 - t"),
            })


c04_steps(False)
c04_steps(True)


def c04_steps_fast(shuffled):
    name = "c04_step_bound_fast" + ("_table" if shuffled else "")
    sh = "shuffles" if shuffled else "None"
    src = """
def %s(bits, accessor, start_index, shuffles, k, R, rank, nv):
    s = encode(bits, accessor, start_index, True, 0, %s)
    n = len(s)
    p = 0
    while p < n:
        mark(code(s[p]))
        mark(encode_vtx[p])
        mark(p)
        p += 1
    if n > 0:
        mark(start_index)
        t = 0
        c = 0
        B = 0
        while t < n - 1:
            mark(code(s[t]))
            mark(encode_vtx[t])
            mark(encode_vtx[t + 1])
            mark(t)
            assert deg(accessor, encode_vtx[t]) >= 2 or rank[encode_vtx[t + 1]] < rank[encode_vtx[t]], "one-arc steps lower the rank"
            assert R[encode_vtx[t + 1]] != 0 and 0 <= rank[encode_vtx[t + 1]] and rank[encode_vtx[t + 1]] < nv, "next vertex is reachable"
            if deg(accessor, encode_vtx[t]) >= 2:
                c += 1
                B += nv
            t += 1
        mark(code(s[n - 1]))
        mark(encode_vtx[n - 1])
        mark(n - 1)
        assert encode_loc[n - 1] < len(bits), "the last step still had a bit to carry or a cursor inside the message"
        assert c + 1 <= len(bits), "fewer branching steps than message bits"
        mul_mono(nv, c + 1, len(bits))
        assert n <= len(bits) * nv, "fast-mode encoding ends within (message length) x (vertex count) steps"
""" % (name, sh)
    from contracts.spiderweb import WF_FAST
    req = dict(WFH)
    req["reachable-closed"] = WF_FAST["reachable-closed"]
    req["no-out-degree-3"] = "forall(lambda v: deg(accessor, v) != 3, 0, ipow(4, k), lambda v: here(v))"
    req["rank-below-vertex-count"] = "nv >= 1 and forall(lambda v: implies(0 <= v and v < ipow(4, k) and R[v] != 0, rank[v] < nv), 0, ipow(4, k), lambda v: here(v))"
    if shuffled:
        req["table"] = "is_table(shuffles, k)"
    harness(name, {"bits": "nd_bits", "accessor": "mat(ipow(4, k), 4)", "start_index": "nat",
                   "shuffles": "mat(ipow(4, k), 4)" if shuffled else "none", "R": "nd_bits", "rank": "list_int", "nv": "nat"},
            src, requires=req, ghost_params={"k": "nat"},
            loops={
                1: dict(invariant={"range": "0 <= p <= n",
                                   "on-reachable-vertex": "0 <= encode_vtx[p] and encode_vtx[p] < ipow(4, k) and R[encode_vtx[p]] != 0",
                                   "steps": "forall(lambda i: 0 <= encode_vtx[i] and encode_vtx[i] < ipow(4, k) and R[encode_vtx[i]] != 0 and "
                                            "(deg(accessor, encode_vtx[i]) >= 2 or rank[encode_vtx[i + 1]] < rank[encode_vtx[i]]), 0, p, lambda i: here(i))"},
                        variant="n - p"),
                2: dict(invariant={"range": "0 <= t <= n - 1 and c >= 0",
                                   "branching-steps-times-vertex-count": "B == c * nv",
                                   "branching-steps-consume-bits": "c <= encode_loc[t]",
                                   "potential": "t + rank[encode_vtx[t]] <= B + nv - 1"}, variant="n - 1 - t"),
            })


c04_steps_fast(False)
c04_steps_fast(True)


# ---------------------------------------------------------------------------------------------------------------- C03 (monotonicity in the mask)
harness("c03_smaller_mask_smaller_graph", {"small": "nd_bits", "large": "nd_bits", "t": "nat"}, '''
def c03_smaller_mask_smaller_graph(k, small, large, t):
    ipow_mono(4, 0, k)
    S = [0] * ipow(4, k)
    desc1, acc1 = connect_coding_graph(k, small, t)
    dv = 0
    while dv < ipow(4, k):
        mark(dv)
        assert implies(desc1[dv] != 0, nsucc(desc1, dv, k) >= t and large[dv] != 0), "the-smaller-graph-is-a-closed-subset-of-the-larger-mask"
        dv += 1
    S = desc1
    desc2, acc2 = connect_coding_graph(k, large, t)
    assert forall(lambda v: implies(desc1[v] != 0, desc2[v] != 0), 0, ipow(4, k)), "a smaller mask never yields a larger graph"
''', requires={"order": "k >= 1", "mask-lengths": "len(small) == ipow(4, k) and len(large) == ipow(4, k)",
                 "smaller": "forall(lambda v: implies(small[v] != 0, large[v] != 0), 0, ipow(4, k))"},
        ghost_params={"k": "nat"}, split={"t": [2, 3, 4]},
        loops={1: dict(invariant={"range": "0 <= dv <= ipow(4, k)",
                                  "closed-inside-the-larger-mask-so-far": "forall(lambda v: implies(desc1[v] != 0, nsucc(desc1, v, k) >= t), 0, dv, lambda v: here(v)) and "
                                                                          "forall(lambda v: implies(desc1[v] != 0, large[v] != 0), 0, dv)"},
                       variant="ipow(4, k) - dv")},
        raises={"ValueError": None})


harness("c14_roundtrip_matrix", {"acc0": "mat(ipow(4, k), 4)", "v": "nat", "j": "nat"}, '''
def c14_roundtrip_matrix(acc0, k, v, j):
    m = accessor_to_adjacency_matrix(acc0)
    assert legal_rows(m, k, 0, ipow(4, k)), "the matrix of an accessor holds ones at de Bruijn shifts only"
    back = adjacency_matrix_to_accessor(m)
    mark(v)
    assert back[v][j] == acc0[v][j], "accessor -> adjacency matrix -> accessor is the identity"
''', requires={"graph": "k >= 1 and k <= 31 and is_accessor(acc0, k)", "entry": "v < ipow(4, k) and j < 4"}, ghost_params={"k": "nat"},
        raises={"MemoryError": None})


harness("c14_leaf_queries_agree", {"acc0": "mat(ipow(4, k), 4)", "v": "nat", "d": "nat", "p": "nat"}, '''
def c14_leaf_queries_agree(acc0, k, v, d, p):
    lm = accessor_to_latter_map(acc0)
    accessor = acc0
    from_accessor = obtain_leaf_vertices(v, d, accessor, None)
    from_map = obtain_leaf_vertices(v, d, None, lm)
    assert len(from_accessor) == len(from_map) and len(from_map) == levn(acc0, v, d), "both representations give as many leaves as there are d-step walks"
    if p < len(from_map):
        assert from_accessor[p] == from_map[p] and from_map[p] == lev(acc0, v, d, p), "the same leaves in the same order: the end points of the d-step walks"
''', requires={"graph": "k >= 1 and is_accessor(acc0, k)", "vertex": "v < ipow(4, k)"}, ghost_params={"k": "nat"})


# ---------------------------------------------------------------------------------------------------------------- C12 (window lemma, both directions)
# occurs(m, s) is Python's `m in s`; occ_elim / occ_intro are the two directions of its definition (some position matches), see pyvc/calls.py.
NOT_IN_WINDOW = """
    if occurs(%(x)s, win):
        occ_elim(%(x)s, win)
        occ_intro(%(x)s, s, w + occ_pos(%(x)s, win))
"""
IN_SOME_WINDOW = """
    if occurs(%(x)s, s):
        occ_elim(%(x)s, s)
        p = occ_pos(%(x)s, s)
        w = min(p, n - k)
        mark(w)
        occ_intro(%(x)s, s[w:w + k], p - w)
    assert not occurs(%(x)s, s), "absent from the whole sequence"
"""


def _forbidden(run, motifs):
    xs = ["run_of(f, '%s')" % ch for ch in "ACGT"] if run else []
    for j in range(motifs or 0):
        xs += ["f.undesired_motifs[%d]" % j, "rc_code(f.undesired_motifs[%d])" % j]
    return xs


def _shape(run, gc, motifs):
    return "%s_%s_%s" % ("run" if run else "norun", "gc" if gc else "nogc", "none" if motifs is None else str(motifs))


def c12_window_of_valid(run, gc, motifs):
    """an accepted sequence has only accepted windows (no side condition needed for this direction)"""
    name = "c12_window_of_valid_" + _shape(run, gc, motifs)
    src = """
def %s(f, s, w):
    k = f.observed_length
    win = s[w:w + k]
    mark(w)
    mark(0)
%s
    assert filter_ok(f, win), "every window of an accepted sequence is accepted"
""" % (name, "".join(NOT_IN_WINDOW % {"x": x} for x in _forbidden(run, motifs)) or "    pass")
    req = {"accepted": "filter_ok(f, s)", "window": "w + f.observed_length <= len(s)"}
    harness(name, {"f": "obj:LocalBioFilter", "s": "str", "w": "nat"}, src, requires=req, self_config={"run": run, "gc": gc, "motifs": motifs})


def c12_valid_of_windows(run, gc, motifs):
    """a sequence at least one window long, all of whose windows are accepted by a window-decidable configuration, is accepted"""
    name = "c12_valid_of_windows_" + _shape(run, gc, motifs)
    gc_part = ("    g = 0\n    while g < n - k + 1:\n        mark(g)\n        assert len(s[g:g + k]) == k, 'window length'\n"
               "        assert gc_window_ok(f, s[g:g + k], 0), 'the window, seen as a sequence of one window'\n"
               "        assert gc_window_ok(f, s, g), 'the same window of the whole sequence'\n        g += 1\n"
               "    assert forall(lambda w: gc_window_ok(f, s, w), 0, n - k + 1, lambda w: here(w)), 'every window has an admissible G+C count'") if gc else "    pass"
    src = """
def %s(f, s):
    k = f.observed_length
    n = len(s)
    mark(0)
    q = 0
    while q < n:
        mark(min(q, n - k))
        assert is_dna(s, q, q + 1), "this character lies in an accepted window"
        q += 1
    assert is_dna(s), "only A, C, G, T"
%s
%s
    assert filter_ok(f, s), "a sequence all of whose windows are accepted is accepted"
""" % (name, "".join(IN_SOME_WINDOW % {"x": x} for x in _forbidden(run, motifs)) or "    pass", gc_part)
    req = {"long-enough": "len(s) >= f.observed_length",
           "every-window-accepted": "forall(lambda w: filter_ok(f, s[w:w + f.observed_length]), 0, len(s) - f.observed_length + 1, lambda w: here(w))"}
    dec = []
    if run:
        dec.append("f.max_homopolymer_runs < f.observed_length and f.max_homopolymer_runs >= 0")
    for j in range(motifs or 0):
        dec.append("len(f.undesired_motifs[%d]) <= f.observed_length" % j)
    if dec:
        req["window-decidable"] = " and ".join(dec)
    loops = {1: dict(invariant={"range": "0 <= q <= n", "letters-so-far": "is_dna(s, 0, q)"}, variant="n - q")}
    if gc:
        loops[2] = dict(invariant={"range": "0 <= g <= n - k + 1", "windows-so-far": "forall(lambda w: gc_window_ok(f, s, w), 0, g, lambda w: here(w))"},
                        variant="n - k + 1 - g")
    harness(name, {"f": "obj:LocalBioFilter", "s": "str"}, src, requires=req, self_config={"run": run, "gc": gc, "motifs": motifs}, loops=loops)


C12_SHAPES = [(r, g, m) for r in (False, True) for g in (False, True) for m in (None, 0, 1, 2, 3)]
for _r, _g, _m in C12_SHAPES:
    c12_window_of_valid(_r, _g, _m)
    c12_valid_of_windows(_r, _g, _m)


# ---------------------------------------------------------------------------------------------------------------- C12 (reverse-complement invariance, A/C/G/T motifs)
MIRRORED = """
    if occurs(%(x)s, t):
        occ_elim(%(x)s, t)
        occ_intro(%(y)s, s, n - occ_pos(%(x)s, t) - len(%(x)s))
    assert not occurs(%(x)s, t), "absent from the reverse complement"
"""


def c12_revcomp(run, gc, motifs):
    """t is the reverse complement of the A/C/G/T string s (and s of t): an accepted s has an accepted t.  Applied to (s, t) and to (t, s): equal verdicts."""
    name = "c12_revcomp_" + _shape(run, gc, motifs)
    pairs = []
    if run:
        pairs += [("run_of(f, 'A')", "run_of(f, 'T')"), ("run_of(f, 'T')", "run_of(f, 'A')"), ("run_of(f, 'C')", "run_of(f, 'G')"), ("run_of(f, 'G')", "run_of(f, 'C')")]
    for j in range(motifs or 0):
        pairs += [("f.undesired_motifs[%d]" % j, "rc_code(f.undesired_motifs[%d])" % j), ("rc_code(f.undesired_motifs[%d])" % j, "f.undesired_motifs[%d]" % j)]
    body = "".join(MIRRORED % {"x": x, "y": y} for x, y in pairs) or "    pass"
    if gc:
        gc_part = """
    if n >= k:
        g = 0
        while g < n - k + 1:
            mark(g)
            mark(n - k - g)
            cnt_revcomp(A(t), P(t, 0), A(s), P(s, 0), n, g, k, 67)
            cnt_revcomp(A(t), P(t, 0), A(s), P(s, 0), n, g, k, 71)
            assert gc_window_ok(f, s, n - k - g), "the mirrored window of the accepted sequence"
            assert gc_window_ok(f, t, g), "the same G+C count"
            g += 1
        assert forall(lambda w: gc_window_ok(f, t, w), 0, n - k + 1, lambda w: here(w)), "every window of the reverse complement"
    else:
        cnt_revcomp(A(t), P(t, 0), A(s), P(s, 0), n, 0, n, 65)
        cnt_revcomp(A(t), P(t, 0), A(s), P(s, 0), n, 0, n, 67)
        cnt_revcomp(A(t), P(t, 0), A(s), P(s, 0), n, 0, n, 71)
        cnt_revcomp(A(t), P(t, 0), A(s), P(s, 0), n, 0, n, 84)
"""
    else:
        gc_part = "    pass"
    src = """
def %s(f, s, t):
    k = f.observed_length
    n = len(s)
    mark(0)
    q = 0
    while q < n:
        assert is_dna(t, q, q + 1), "the complement of a nucleotide is a nucleotide"
        q += 1
    assert is_dna(t), "only A, C, G, T"
%s
%s
    assert filter_ok(f, t), "the reverse complement of an accepted sequence is accepted"
""" % (name, body, gc_part)
    req = {"strings": "is_dna(s) and len(t) == len(s)",
           "mirror": "forall(lambda j: chr_(t[j]) == comp(s[len(s) - 1 - j]), 0, len(s), lambda j: t[j]) and "
                     "forall(lambda j: chr_(s[j]) == comp(t[len(s) - 1 - j]), 0, len(s), lambda j: s[j])",
           "accepted": "filter_ok(f, s)"}
    if motifs:
        req["nucleotide-motifs"] = " and ".join("is_dna(f.undesired_motifs[%d])" % j for j in range(motifs))
    loops = {1: dict(invariant={"range": "0 <= q <= n", "letters-so-far": "is_dna(t, 0, q)"}, variant="n - q")}
    if gc:
        loops[2] = dict(invariant={"range": "0 <= g <= n - k + 1", "windows-so-far": "forall(lambda w: gc_window_ok(f, t, w), 0, g, lambda w: here(w))"},
                        variant="n - k + 1 - g")
    harness(name, {"f": "obj:LocalBioFilter", "s": "str", "t": "str"}, src, requires=req, self_config={"run": run, "gc": gc, "motifs": motifs}, loops=loops)


for _r, _g, _m in C12_SHAPES:
    c12_revcomp(_r, _g, _m)
