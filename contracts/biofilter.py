"""Sidecar contracts for dsw/biofilter.py."""


def init_variant(run, motifs):
    name = "dsw.biofilter.LocalBioFilter.__init__#" + ("run" if run else "norun") + "-" + ("none" if motifs is None else str(motifs))
    bad_motif = " or ".join("len(undesired_motifs[%d]) > observed_length" % i for i in range(motifs or 0)) or "False"
    ok_motif = " and ".join("len(undesired_motifs[%d]) <= observed_length" % i for i in range(motifs or 0)) or "True"
    req = {}
    if run:
        # KNOWN FINDING D6 (known_findings.json): the constructor accepts max_homopolymer_runs == observed_length, which is not window-decidable;
        # that one family is excluded here, every OTHER accepted configuration must be window-decidable
        req["known-finding-D6-excluded"] = "max_homopolymer_runs != observed_length"
    return dict(
        name=name, function="dsw.biofilter.LocalBioFilter.__init__", variant_of="dsw.biofilter.LocalBioFilter.__init__", n_loops=1,
        self_class="new", self_new="LocalBioFilter",
        params={"observed_length": "int", "max_homopolymer_runs": "int" if run else "none", "gc_range": "none",
                "undesired_motifs": "none" if motifs is None else "strs[%d]" % motifs},
        requires=req, returns="none",
        ensures={"window-decidable": ("max_homopolymer_runs < observed_length" if run else "True") + " and " + ok_motif},
        raises={"ValueError": ("observed_length < max_homopolymer_runs" if run else "False") + " or " + bad_motif},
        candidates={"observed_length": [1, 2, 3, 5], "max_homopolymer_runs": [0, 1, 2, 3, 4, 6] if run else [None]},
    )


CONTRACTS = [init_variant(r, m) for r in (False, True) for m in (None, 0, 1, 2, 3)]


def valid_variant(run, gc, motifs, only_last):
    name = "dsw.biofilter.LocalBioFilter.valid#%s-%s-%s-%s" % ("run" if run else "norun", "gc" if gc else "nogc",
                                                             "none" if motifs is None else str(motifs), "last" if only_last else "whole")
    observed = "dna_sequence[-self.observed_length:]" if only_last else "dna_sequence"
    loops = {1: dict(binds="observed_dna_sequence", invariant={"acgt-so-far": "is_dna(observed_dna_sequence, 0, _i)"})}
    ghost = {}
    if gc:
        loops[4] = dict(binds="range(len(observed_dna_sequence) - self.observed_length + 1)", invariant={
            "windows-so-far": "forall(lambda w: gc_window_ok(self, observed_dna_sequence, w), 0, _i, lambda w: here(w))"})
        ghost["loop4_begin"] = "mark(index)"
    return dict(
        name=name, function="dsw.biofilter.LocalBioFilter.valid", variant_of="dsw.biofilter.LocalBioFilter.valid", n_loops=4,
        self_class="LocalBioFilter", self_config={"run": run, "gc": gc, "motifs": motifs},
        params={"dna_sequence": "str", "only_last": "true" if only_last else "false"},
        requires={},
        returns="bool",
        ensures={"verdict": "result == filter_ok(self, " + observed + ")"},
        raises={}, ghost=ghost, loops=loops,
    )


CONTRACTS = CONTRACTS + [valid_variant(r, g, m, o) for r in (False, True) for g in (False, True) for m in (None, 0, 1, 2, 3) for o in (False, True)]
