"""Sidecar contracts for dsw/biofilter.py."""


def init_variant(run, motifs):
    name = "dsw.biofilter.LocalBioFilter.__init__#" + ("run" if run else "norun") + "-" + ("none" if motifs is None else str(motifs))
    bad_motif = " or ".join("len(undesired_motifs[%d]) > observed_length" % i for i in range(motifs or 0)) or "False"
    ok_motif = " and ".join("len(undesired_motifs[%d]) <= observed_length" % i for i in range(motifs or 0)) or "True"
    req = {}
    if run:
        # KNOWN FINDING D6 (known_findings.json): the constructor accepts max_homopolymer_runs == observed_length, which is not window-decidable;
        # that one family is excluded here, every OTHER accepted configuration must be window-decidable
        req["known-finding-D6-excluded"] = "max_homopolymer_runs != observed_length"
    return dict(
        name=name, function="dsw.biofilter.LocalBioFilter.__init__", variant_of="dsw.biofilter.LocalBioFilter.__init__", n_loops=1,
        self_class="new", self_new="LocalBioFilter",
        params={"observed_length": "int", "max_homopolymer_runs": "int" if run else "none", "gc_range": "none",
                "undesired_motifs": "none" if motifs is None else "strs[%d]" % motifs},
        requires=req, returns="none",
        ensures={"window-decidable": ("max_homopolymer_runs < observed_length" if run else "True") + " and " + ok_motif},
        raises={"ValueError": ("observed_length < max_homopolymer_runs" if run else "False") + " or " + bad_motif},
        candidates={"observed_length": [1, 2, 3, 5], "max_homopolymer_runs": [0, 1, 2, 3, 4, 6] if run else [None]},
    )


CONTRACTS = [init_variant(r, m) for r in (False, True) for m in (None, 0, 1, 2, 3)]
