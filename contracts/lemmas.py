"""Inductive lemmas about the spec functions (pv = value of a digit range).  Statement + proof; each is verified by pyvc as the unit
`lemma.<name>` (the ghost loop is the induction).  Raw form: a = array, d = digit offset, [lo, hi) absolute index range, b = base."""

LEMMAS = [
    dict(
        name="pv_store_frame",      # a store outside [lo, hi) does not change the value of that range
        params={"a": "arr", "d": "int", "lo": "int", "hi": "int", "b": "int", "i": "int", "v": "int"},
        requires={"outside": "i >= hi or i < lo"},
        ensures={"frame": "pv(store(a, i, v), d, lo, hi, b) == pv(a, d, lo, hi, b)"},
        triggers=["pv(store(a, i, v), d, lo, hi, b)"],
        proof="h = lo\nwhile h < hi:\n    h += 1",
        loops={1: dict(invariant={"range": "lo <= h and (h <= hi or hi < lo)",
                                  "same": "pv(store(a, i, v), d, lo, h, b) == pv(a, d, lo, h, b)"}, variant="hi - h")},
    ),
    dict(
        name="pv_leading_zeros",    # a zero-valued prefix can be dropped
        params={"a": "arr", "d": "int", "lo": "int", "mid": "int", "hi": "int", "b": "int"},
        requires={"order": "lo <= mid and mid <= hi", "zero-prefix": "pv(a, d, lo, mid, b) == 0"},
        ensures={"drop": "pv(a, d, lo, hi, b) == pv(a, d, mid, hi, b)"},
        triggers=["pv(a, d, lo, hi, b)", "pv(a, d, mid, hi, b)"],
        proof="h = mid\nwhile h < hi:\n    h += 1",
        loops={1: dict(invariant={"range": "mid <= h <= hi", "same": "pv(a, d, lo, h, b) == pv(a, d, mid, h, b)"}, variant="hi - h")},
    ),
    dict(
        name="pv_ext",              # two ranges of equal length with equal digits have equal values (different arrays / offsets allowed)
        params={"a": "arr", "d": "int", "lo": "int", "a2": "arr", "d2": "int", "lo2": "int", "n": "int", "b": "int"},
        requires={"n": "n >= 0", "agree": "forall(lambda q: a[q] + d == a2[q - lo + lo2] + d2, lo, lo + n)"},
        ensures={"equal": "pv(a, d, lo, lo + n, b) == pv(a2, d2, lo2, lo2 + n, b)"},
        proof="h = 0\nwhile h < n:\n    h += 1",
        loops={1: dict(invariant={"range": "0 <= h <= n", "same": "pv(a, d, lo, lo + h, b) == pv(a2, d2, lo2, lo2 + h, b)"}, variant="n - h")},
    ),
    dict(
        name="pv_zero",             # an all-zero range has value 0
        params={"a": "arr", "d": "int", "lo": "int", "hi": "int", "b": "int"},
        requires={"zeros": "forall(lambda q: a[q] + d == 0, lo, hi)"},
        ensures={"zero": "pv(a, d, lo, hi, b) == 0"},
        proof="h = lo\nwhile h < hi:\n    h += 1",
        loops={1: dict(invariant={"range": "lo <= h and (h <= hi or hi < lo)", "zero": "pv(a, d, lo, h, b) == 0"}, variant="hi - h")},
    ),
    dict(
        name="pv_positive",         # non-negative digits and a positive leading digit give a positive value
        params={"a": "arr", "d": "int", "lo": "int", "hi": "int", "b": "int"},
        split={"b": [2, 4, 10]},
        requires={"non-empty": "lo < hi", "digits": "forall(lambda q: a[q] + d >= 0, lo, hi)", "leading": "a[lo] + d >= 1"},
        ensures={"positive": "pv(a, d, lo, hi, b) >= 1"},
        proof="h = lo + 1\nwhile h < hi:\n    h += 1",
        loops={1: dict(invariant={"range": "lo + 1 <= h <= hi", "positive": "pv(a, d, lo, h, b) >= 1"}, variant="hi - h")},
    ),
    dict(
        name="pv_bound",            # digits in 0..b-1 give 0 <= value < b ** length
        params={"a": "arr", "d": "int", "lo": "int", "hi": "int", "b": "int"},
        split={"b": [2, 4, 10]},
        requires={"order": "lo <= hi", "digits": "forall(lambda q: 0 <= a[q] + d <= b - 1, lo, hi)"},
        ensures={"range": "0 <= pv(a, d, lo, hi, b) < ipow(b, hi - lo)"},
        proof="h = lo\nwhile h < hi:\n    h += 1",
        loops={1: dict(invariant={"range": "lo <= h <= hi", "bound": "0 <= pv(a, d, lo, h, b) < ipow(b, h - lo)"}, variant="hi - h")},
    ),
    dict(
        name="ipow_mono",           # b >= 1, 0 <= x <= y  =>  1 <= b**x <= b**y
        params={"b": "int", "x": "int", "y": "int"},
        split={"b": [2, 4, 10]},
        requires={"order": "0 <= x <= y"},
        ensures={"mono": "1 <= ipow(b, x) and ipow(b, x) <= ipow(b, y)"},
        proof="h = 0\nwhile h < x:\n    h += 1\ng = x\nwhile g < y:\n    g += 1",
        loops={1: dict(invariant={"range": "0 <= h <= x", "pos": "ipow(b, h) >= 1"}, variant="x - h"),
               2: dict(invariant={"range": "x <= g <= y", "mono": "1 <= ipow(b, x) and ipow(b, x) <= ipow(b, g)"}, variant="y - g")},
    ),
    dict(
        name="pv_inj",              # fixed-width base-b rendering is injective
        params={"a": "arr", "d": "int", "lo": "int", "a2": "arr", "d2": "int", "lo2": "int", "n": "int", "b": "int"},
        split={"b": [2, 4, 10]},
        requires={"n": "n >= 0",
                  "digits": "forall(lambda q: 0 <= a[q] + d <= b - 1, lo, lo + n) and forall(lambda q: 0 <= a2[q] + d2 <= b - 1, lo2, lo2 + n)",
                  "same-value": "pv(a, d, lo, lo + n, b) == pv(a2, d2, lo2, lo2 + n, b)"},
        ensures={"same-digits": "forall(lambda q: a[q] + d == a2[q - lo + lo2] + d2, lo, lo + n)"},
        proof="h = n\nwhile h > 0:\n    h -= 1",
        loops={1: dict(invariant={"range": "0 <= h <= n",
                                  "prefix-values": "pv(a, d, lo, lo + h, b) == pv(a2, d2, lo2, lo2 + h, b)",
                                  "suffix-digits": "forall(lambda q: a[q] + d == a2[q - lo + lo2] + d2, lo + h, lo + n)"}, variant="h")},
    ),
    dict(
        name="pv_split",            # value of a range = value of its head * b**(length of tail) + value of its tail
        params={"a": "arr", "d": "int", "lo": "int", "mid": "int", "hi": "int", "b": "int"},
        split={"b": [2, 4, 10]},
        requires={"order": "lo <= mid and mid <= hi"},
        ensures={"split": "pv(a, d, lo, hi, b) == pv(a, d, lo, mid, b) * ipow(b, hi - mid) + pv(a, d, mid, hi, b)"},
        proof="h = mid\nwhile h < hi:\n    h += 1",
        loops={1: dict(invariant={"range": "mid <= h <= hi",
                                  "split": "pv(a, d, lo, h, b) == pv(a, d, lo, mid, b) * ipow(b, h - mid) + pv(a, d, mid, h, b)"}, variant="hi - h")},
    ),
    dict(
        name="mod_small",           # (m*Q + r) divided by Q is m remainder r, for 0 <= r < Q and a small multiplier m
        params={"m": "int", "Q": "int", "r": "int"},
        split={"m": [0, 1, 2, 3]},
        requires={"range": "Q >= 1 and 0 <= r and r < Q"},
        ensures={"mod": "(m * Q + r) % Q == r", "div": "(m * Q + r) // Q == m"},
        proof="pass",
    ),
    dict(
        name="ssum_zero_iff",       # a sum of non-negative entries is 0 exactly when every entry is 0 (and it is never negative)
        params={"a": "arr", "d": "int", "lo": "int", "hi": "int"},
        requires={"non-negative": "forall(lambda q: a[q] + d >= 0, lo, hi)"},
        ensures={"non-negative": "rsum(a, d, lo, hi) >= 0",
                 "zero-iff": "(rsum(a, d, lo, hi) == 0) == forall(lambda q: a[q] + d == 0, lo, hi)"},
        proof="h = lo\nwhile h < hi:\n    h += 1",
        loops={1: dict(invariant={"range": "lo <= h and (h <= hi or hi < lo)", "non-negative": "rsum(a, d, lo, h) >= 0",
                                  "zero-iff": "(rsum(a, d, lo, h) == 0) == forall(lambda q: a[q] + d == 0, lo, h)"}, variant="hi - h")},
    ),
    dict(
        name="ssum_mono_eq",        # point-wise <= gives sum <=, and equal sums then force point-wise equality
        params={"a": "arr", "d": "int", "a2": "arr", "d2": "int", "lo": "int", "hi": "int"},
        requires={"pointwise-le": "forall(lambda q: a[q] + d <= a2[q] + d2, lo, hi)"},
        ensures={"sum-le": "rsum(a, d, lo, hi) <= rsum(a2, d2, lo, hi)",
                 "equal-sums-equal-entries": "implies(rsum(a, d, lo, hi) == rsum(a2, d2, lo, hi), forall(lambda q: a[q] + d == a2[q] + d2, lo, hi))"},
        proof="h = lo\nwhile h < hi:\n    h += 1",
        loops={1: dict(invariant={"range": "lo <= h and (h <= hi or hi < lo)", "sum-le": "rsum(a, d, lo, h) <= rsum(a2, d2, lo, h)",
                                  "equal": "implies(rsum(a, d, lo, h) == rsum(a2, d2, lo, h), forall(lambda q: a[q] + d == a2[q] + d2, lo, h))"},
                       variant="hi - h")},
    ),
    dict(
        name="ssum_split",          # the sum over [lo, hi) is the sum over [lo, mid) plus the sum over [mid, hi)
        params={"a": "arr", "d": "int", "lo": "int", "mid": "int", "hi": "int"},
        requires={"order": "lo <= mid and mid <= hi"},
        ensures={"split": "rsum(a, d, lo, hi) == rsum(a, d, lo, mid) + rsum(a, d, mid, hi)"},
        proof="h = mid\nwhile h < hi:\n    h += 1",
        loops={1: dict(invariant={"range": "mid <= h <= hi", "split": "rsum(a, d, lo, h) == rsum(a, d, lo, mid) + rsum(a, d, mid, h)"}, variant="hi - h")},
    ),
    dict(
        name="ssum_ext",            # ranges of equal length with equal entries have equal sums (different arrays / offsets allowed)
        params={"a": "arr", "d": "int", "lo": "int", "a2": "arr", "d2": "int", "lo2": "int", "n": "int"},
        requires={"n": "n >= 0", "agree": "forall(lambda q: a[q] + d == a2[q - lo + lo2] + d2, lo, lo + n)"},
        ensures={"equal": "rsum(a, d, lo, lo + n) == rsum(a2, d2, lo2, lo2 + n)"},
        proof="h = 0\nwhile h < n:\n    h += 1",
        loops={1: dict(invariant={"range": "0 <= h <= n", "same": "rsum(a, d, lo, lo + h) == rsum(a2, d2, lo2, lo2 + h)"}, variant="n - h")},
    ),
    # ------------------------------------------------------------------ mixed-radix values (C01 / C05)
    dict(
        name="wt_store_frame",      # a store at or after hi does not change the product of [lo, hi)
        params={"dg": "arr", "lo": "int", "hi": "int", "i": "int", "v": "int"},
        requires={"outside": "i >= hi"},
        ensures={"frame": "rwt(store(dg, i, v), lo, hi) == rwt(dg, lo, hi)"},
        triggers=["rwt(store(dg, i, v), lo, hi)"],
        proof="h = lo\nwhile h < hi:\n    h += 1",
        loops={1: dict(invariant={"range": "lo <= h and (h <= hi or hi < lo)", "same": "rwt(store(dg, i, v), lo, h) == rwt(dg, lo, h)"}, variant="hi - h")},
    ),
    dict(
        name="lv_store_frame",      # stores at or after hi do not change the little-endian value of [lo, hi)
        params={"dg": "arr", "dd": "arr", "lo": "int", "hi": "int", "i": "int", "v": "int", "i2": "int", "v2": "int"},
        requires={"outside": "i >= hi and i2 >= hi"},
        ensures={"frame": "rlv(store(dg, i, v), store(dd, i2, v2), lo, hi) == rlv(dg, dd, lo, hi)"},
        triggers=["rlv(store(dg, i, v), store(dd, i2, v2), lo, hi)"],
        uses=["wt_store_frame"],
        proof="h = lo\nwhile h < hi:\n    h += 1",
        loops={1: dict(invariant={"range": "lo <= h and (h <= hi or hi < lo)",
                                  "same": "rlv(store(dg, i, v), store(dd, i2, v2), lo, h) == rlv(dg, dd, lo, h)"}, variant="hi - h")},
    ),
    dict(
        name="wt_peel",             # product of [lo, hi) = dg[lo] * product of [lo+1, hi)
        params={"dg": "arr", "lo": "int", "hi": "int"},
        requires={"non-empty": "lo < hi"},
        ensures={"peel": "rwt(dg, lo, hi) == dg[lo] * rwt(dg, lo + 1, hi)"},
        proof="h = lo + 1\nwhile h < hi:\n    h += 1",
        loops={1: dict(invariant={"range": "lo + 1 <= h <= hi", "peel": "rwt(dg, lo, h) == dg[lo] * rwt(dg, lo + 1, h)"}, variant="hi - h")},
    ),
    dict(
        name="hv_append",           # right-Horner value of [lo, hi+1) = that of [lo, hi) + dd[hi] * product of dg over [lo, hi)
        params={"dg": "arr", "dd": "arr", "lo": "int", "hi": "int"},
        requires={"order": "lo <= hi"},
        ensures={"append": "rhv(dg, dd, lo, hi + 1) == rhv(dg, dd, lo, hi) + dd[hi] * rwt(dg, lo, hi)"},
        proof="g = hi\nwhile g > lo:\n    wt_peel(dg, g - 1, hi)\n    g -= 1",
        loops={1: dict(invariant={"range": "lo <= g <= hi", "append": "rhv(dg, dd, g, hi + 1) == rhv(dg, dd, g, hi) + dd[hi] * rwt(dg, g, hi)"},
                       variant="g - lo")},
    ),
    dict(
        name="hv_lv_dual",          # fold / Horner duality: the right-Horner value equals the little-endian weighted sum
        params={"dg": "arr", "dd": "arr", "lo": "int", "hi": "int"},
        requires={"order": "lo <= hi"},
        ensures={"dual": "rhv(dg, dd, lo, hi) == rlv(dg, dd, lo, hi)"},
        proof="h = lo\nwhile h < hi:\n    hv_append(dg, dd, lo, h)\n    h += 1",
        loops={1: dict(invariant={"range": "lo <= h <= hi", "dual": "rhv(dg, dd, lo, h) == rlv(dg, dd, lo, h)"}, variant="hi - h")},
    ),
    dict(
        name="walk_dead",           # once a prefix of the string has left the graph, every longer prefix has too
        params={"acc": "arr2", "sarr": "arr", "s0": "int", "v0": "int", "p": "int", "q": "int"},
        requires={"order": "0 <= p and p <= q", "dead": "rwalkv(acc, sarr, s0, v0, p) < 0"},
        ensures={"stays-dead": "rwalkv(acc, sarr, s0, v0, q) < 0"},
        proof="h = p\nwhile h < q:\n    h += 1",
        loops={1: dict(invariant={"range": "p <= h <= q", "dead": "rwalkv(acc, sarr, s0, v0, h) < 0"}, variant="q - h")},
    ),
    # ------------------------------------------------------------------ C18: the digit <-> live-arc map of one vertex is a bijection
    dict(
        name="digit_bijection",     # without a table: digit d selects the d-th live arc; reading that arc back gives d
        params={"row": "arr", "d": "int"},
        requires={"digit-in-range": "0 <= d and d < rdeg(row)"},
        ensures={"arc-is-live": "0 <= rarc(row, None, d) and rarc(row, None, d) <= 3 and row[rarc(row, None, d)] >= 0",
                 "digit-of-arc-of-digit": "rdigit(row, None, rarc(row, None, d)) == d"},
        proof="pass",
    ),
    dict(
        name="digit_bijection_table",   # with a permutation row: digit d selects the live arc whose table entry is d-th smallest
        params={"row": "arr", "srow": "arr", "d": "int"},
        requires={"digit-in-range": "0 <= d and d < rdeg(row)", "permutation-row": "is_perm_row(srow)"},
        ensures={"arc-is-live": "0 <= rarc(row, srow, d) and rarc(row, srow, d) <= 3 and row[rarc(row, srow, d)] >= 0",
                 "digit-of-arc-of-digit": "rdigit(row, srow, rarc(row, srow, d)) == d"},
        proof="pass",
    ),
    dict(
        name="arc_bijection",       # every live arc j is selected by exactly its own digit (the map is onto the live arcs)
        params={"row": "arr", "j": "int"},
        requires={"live-arc": "0 <= j and j <= 3 and row[j] >= 0"},
        ensures={"digit-in-range": "0 <= rdigit(row, None, j) and rdigit(row, None, j) < rdeg(row)",
                 "arc-of-digit-of-arc": "rarc(row, None, rdigit(row, None, j)) == j"},
        proof="pass",
    ),
    dict(
        name="arc_bijection_table",
        params={"row": "arr", "srow": "arr", "j": "int"},
        requires={"live-arc": "0 <= j and j <= 3 and row[j] >= 0", "permutation-row": "is_perm_row(srow)"},
        ensures={"digit-in-range": "0 <= rdigit(row, srow, j) and rdigit(row, srow, j) < rdeg(row)",
                 "arc-of-digit-of-arc": "rarc(row, srow, rdigit(row, srow, j)) == j"},
        proof="pass",
    ),
    dict(
        name="window_shift",        # sliding a k-wide base-4 window one step: new value = (old value mod 4^(k-1)) * 4 + entering digit
        params={"a": "arr", "d": "int", "lo": "int", "k": "int"},
        requires={"k": "k >= 1", "digits": "forall(lambda q: 0 <= a[q] + d <= 3, lo, lo + k + 1)"},
        ensures={"shift": "pv(a, d, lo + 1, lo + k + 1, 4) == (pv(a, d, lo, lo + k, 4) % ipow(4, k - 1)) * 4 + a[lo + k] + d"},
        proof="ipow_mono(4, 0, k - 1)\npv_split(a, d, lo, lo + 1, lo + k, 4)\npv_bound(a, d, lo + 1, lo + k, 4)\n"
              "assert pv(a, d, lo, lo + 1, 4) == a[lo] + d, 'head-digit'\n"
              "mod_small(a[lo] + d, ipow(4, k - 1), pv(a, d, lo + 1, lo + k, 4))",
    ),
    dict(
        name="mul_mono",            # multiplication by a non-negative factor is monotone
        params={"w": "int", "a": "int", "b": "int"},
        requires={"sign": "w >= 0", "order": "a <= b"},
        ensures={"mono": "w * a <= w * b"},
        proof="pass",
    ),
    dict(
        name="mul_step",            # one step of the quotient chain: w * g0 >= (w * d) * g1 when g0 >= d * g1
        params={"w": "int", "d": "int", "w1": "int", "g1": "int", "g0": "int"},
        split={"d": [1, 2, 3, 4]},
        requires={"signs": "w >= 1 and g1 >= 0", "division": "d * g1 <= g0", "next-weight": "w1 == w * d"},
        ensures={"step": "w1 * g1 <= w * g0 and w1 >= 1"},
        proof="mul_mono(w, d * g1, g0)",
    ),
    dict(
        name="ipow_4_2",            # 4 ** e == 2 ** (2 * e)
        params={"e": "int"},
        requires={"exponent": "e >= 0"},
        ensures={"square": "ipow(4, e) == ipow(2, 2 * e)"},
        proof="h = 0\nwhile h < e:\n    h += 1",
        loops={1: dict(invariant={"range": "0 <= h <= e", "square": "ipow(4, h) == ipow(2, 2 * h)"}, variant="e - h")},
    ),
    dict(
        name="shift_append",        # (4v + j) mod 4m == 4 (v mod m) + j : appending a base-4 digit to a width-limited value drops the leading digit
        params={"v": "int", "j": "int", "m": "int", "q": "int"},
        split={"q": [0, 1, 2, 3]},
        requires={"range": "m >= 1 and 0 <= j and j <= 3", "quotient": "q * m <= v and v < (q + 1) * m"},
        ensures={"shift": "(v * 4 + j) % (4 * m) == (v % m) * 4 + j", "quotient": "v // m == q"},
        proof="mod_small(q, m, v - q * m)\nmod_small(q, 4 * m, (v - q * m) * 4 + j)",
    ),
    dict(
        name="fm_ext",              # the breadth-first step depends only on the entries of the list (two lists that agree give the same successors)
        params={"acc": "arr2", "b1": "arr", "s1": "int", "b2": "arr", "s2": "int", "n": "int"},
        # absolute index j into b1 (the trigger b1[j] carries no arithmetic)
        requires={"n": "n >= 0", "agree": "forall(lambda j: b1[j] == b2[s2 + (j - s1)], s1, s1 + n)"},
        ensures={"same-count": "rfmn(acc, b1, s1, n) == rfmn(acc, b2, s2, n)",
                 "same-entries": "forall(lambda p: rfm(acc, b1, s1, n, p) == rfm(acc, b2, s2, n, p), 0, rfmn(acc, b1, s1, n))"},
        proof="h = 0\nwhile h < n:\n    h += 1",
        loops={1: dict(invariant={"range": "0 <= h <= n", "same-count": "rfmn(acc, b1, s1, h) == rfmn(acc, b2, s2, h)",
                                  "same-entries": "forall(lambda p: rfm(acc, b1, s1, h, p) == rfm(acc, b2, s2, h, p), 0, rfmn(acc, b1, s1, h))"},
                       variant="n - h")},
    ),
    dict(
        name="cnt_split",           # a count over [lo, hi) is the count over [lo, mid) plus the count over [mid, hi)
        params={"a": "arr", "d": "int", "lo": "int", "mid": "int", "hi": "int", "x": "int"},
        requires={"order": "lo <= mid and mid <= hi"},
        ensures={"split": "rcnt(a, d, lo, hi, x) == rcnt(a, d, lo, mid, x) + rcnt(a, d, mid, hi, x)"},
        proof="h = mid\nwhile h < hi:\n    h += 1",
        loops={1: dict(invariant={"range": "mid <= h <= hi", "split": "rcnt(a, d, lo, h, x) == rcnt(a, d, lo, mid, x) + rcnt(a, d, mid, h, x)"}, variant="hi - h")},
    ),
    dict(
        name="cnt_revcomp",         # t = reverse complement of s (both of length n): x counted in t[lo, lo+m) = comp(x) counted in the mirrored range of s
        params={"t": "arr", "ts": "int", "s": "arr", "ss": "int", "n": "int", "lo": "int", "m": "int", "x": "int"},
        requires={"range": "0 <= lo and 0 <= m and lo + m <= n",
                  "mirror": "forall(lambda j: t[j] == compc(s[ss + n - 1 - (j - ts)]), ts, ts + n)",
                  "letter": "x == 65 or x == 67 or x == 71 or x == 84"},
        ensures={"mirrored-count": "rcnt(t, 0, ts + lo, ts + lo + m, x) == rcnt(s, 0, ss + n - lo - m, ss + n - lo, compc(x))"},
        proof="h = 0\nwhile h < m:\n    cnt_split(s, 0, ss + n - lo - h - 1, ss + n - lo - h, ss + n - lo, compc(x))\n    h += 1",
        loops={1: dict(invariant={"range": "0 <= h <= m",
                                  "mirrored-so-far": "rcnt(t, 0, ts + lo, ts + lo + h, x) == rcnt(s, 0, ss + n - lo - h, ss + n - lo, compc(x))"}, variant="m - h")},
    ),
]
