"""Executable spec functions, transcribed from the statements in properties.jsonl.

Pure Python (no numpy import needed; numpy arrays are accepted through indexing).  These are the
*oracles*: the contracts in /verif/contracts/*.py mention them by name, `pyvc` gives each an SMT
counterpart (pyvc/specz3.py) and CPython simply runs them (replay, bounded stand-ins, cross-check).
Nothing here calls into /repo/dsw.
"""
NUC = "ACGT"


# ---------------------------------------------------------------- decimal strings (C15, C16)
def is_digits(s):
    return all(len(c) == 1 and "0" <= c <= "9" for c in s)


def canon(s):
    """non-empty decimal string without leading zeros (unless it is "0")."""
    return isinstance(s, str) and len(s) >= 1 and is_digits(s) and (len(s) == 1 or s[0] != "0")


def val(seq, lo, hi, base=10):
    """value of the digit range seq[lo:hi] (most significant first); digits may be chars or ints."""
    v = 0
    for j in range(lo, hi):
        d = seq[j]
        d = (ord(d) - 48) if isinstance(d, str) else int(d)
        v = v * base + d
    return v


def dval(s):
    return val(s, 0, len(s), 10)


def val2(bits):
    return val(list(bits), 0, len(bits), 2)


def code(c):
    """A<C<G<T -> 0..3; None for a foreign character."""
    i = NUC.find(c) if len(c) == 1 else -1
    return i if i >= 0 else None


def val4(dna):
    v = 0
    for c in dna:
        v = v * 4 + code(c)
    return v


def ipow(b, e):
    r = 1
    for _ in range(e):
        r *= b
    return r


def render(n, width, base):
    """fixed-width big-endian digits of n (n < base**width)."""
    out = []
    for _ in range(width):
        out.append(n % base)
        n //= base
    return out[::-1]


def kmer(v, k):
    return "".join(NUC[d] for d in render(v, k, 4))


# ---------------------------------------------------------------- de Bruijn arithmetic (C13)
def succ(v, j, k):
    return (4 * v + j) % ipow(4, k)


def pred(v, f, k):
    return v // 4 + f * ipow(4, k - 1)


def order_of(n_vertices):
    k, n = 0, 1
    while n < n_vertices:
        n *= 4
        k += 1
    return k if n == n_vertices else None


def live(acc, v):
    return [j for j in range(4) if acc[v][j] >= 0]


def is_accessor(acc, k):
    n = ipow(4, k)
    if len(acc) != n:
        return False
    for v in range(n):
        if len(acc[v]) != 4:
            return False
        for j in range(4):
            if acc[v][j] != -1 and acc[v][j] != succ(v, j, k):
                return False
    return True


def induced_accessor(retained, k):
    """accessor (list of rows) of the sub-graph induced by the vertex set `retained`."""
    n = ipow(4, k)
    rs = set(int(x) for x in retained)
    return [[(succ(v, j, k) if (v in rs and succ(v, j, k) in rs) else -1) for j in range(4)] for v in range(n)]


def arc_set(acc):
    return {(v, int(acc[v][j])) for v in range(len(acc)) for j in range(4) if acc[v][j] >= 0}


def vertices_with_arcs(acc):
    return [v for v in range(len(acc)) if any(acc[v][j] >= 0 for j in range(4))]


# ---------------------------------------------------------------- walks (C02, C05, C06)
def walk_prefix(acc, start, s):
    """(length of the longest prefix of s that is a walk from start, vertex reached)."""
    v = start
    for p, c in enumerate(s):
        j = code(c)
        if j is None or acc[v][j] < 0:
            return p, v
        v = int(acc[v][j])
    return len(s), v


def is_walk(acc, start, s):
    return walk_prefix(acc, start, s)[0] == len(s)


def walk_vertices(acc, start, s):
    out, v = [start], start
    for c in s:
        v = int(acc[v][code(c)])
        out.append(v)
    return out


# ---------------------------------------------------------------- digit map (C05, C18)
def arc_of_digit(acc, shuffles, v, d):
    """the live column selected by digit d at vertex v (d-th live arc; with a table: the live arc whose
    table entry is d-th smallest)."""
    lv = live(acc, v)
    if shuffles is None:
        return lv[d]
    return sorted(lv, key=lambda j: shuffles[v][j])[d]


def digit_of_arc(acc, shuffles, v, j):
    lv = live(acc, v)
    if shuffles is None:
        return lv.index(j)
    return sorted(lv, key=lambda c: shuffles[v][c]).index(j)


def ref_encode(m, acc, start, shuffles=None, step_limit=None):
    """normal mode reference coder over Python integers: little-endian mixed radix of the out-degrees met."""
    v, out, steps = start, [], 0
    while m > 0:
        lv = live(acc, v)
        if len(lv) == 0:
            raise ValueError("dead end")
        if len(lv) > 1:
            d, m = m % len(lv), m // len(lv)
            j = arc_of_digit(acc, shuffles, v, d)
        else:
            j = lv[0]
        out.append(NUC[j])
        v = int(acc[v][j])
        steps += 1
        if step_limit is not None and steps > step_limit:
            raise RuntimeError("step limit")
    return "".join(out)


def ref_encode_fast(bits, acc, start, shuffles=None, step_limit=None):
    v, out, loc, steps, n = start, [], 0, 0, len(bits)
    while loc < n:
        lv = live(acc, v)
        if len(lv) == 4:
            d = 2 * int(bits[loc]) + (int(bits[loc + 1]) if loc + 1 < n else 0)
            loc += 2
            j = arc_of_digit(acc, shuffles, v, d)
        elif len(lv) == 2:
            d = int(bits[loc])
            loc += 1
            j = arc_of_digit(acc, shuffles, v, d)
        elif len(lv) == 1:
            j = lv[0]
        else:
            raise ValueError("out-degree")
        out.append(NUC[j])
        v = int(acc[v][j])
        steps += 1
        if step_limit is not None and steps > step_limit:
            raise RuntimeError("step limit")
    return "".join(out)


def walk_digits(acc, start, s, shuffles=None):
    """[(out_degree, digit)] of the branching positions of a walk."""
    v, out = start, []
    for c in s:
        j = code(c)
        lv = live(acc, v)
        if len(lv) > 1:
            out.append((len(lv), digit_of_arc(acc, shuffles, v, j)))
        v = int(acc[v][j])
    return out


def mixed_value(pairs):
    """little-endian mixed radix value of [(radix, digit)]."""
    value, weight = 0, 1
    for radix, digit in pairs:
        value += digit * weight
        weight *= radix
    return value


def fast_bits_of_walk(acc, start, s, shuffles=None):
    """the bit cells written by the fast scheme for a walk (list of bits in order)."""
    v, out = start, []
    for c in s:
        j = code(c)
        lv = live(acc, v)
        if len(lv) == 4:
            d = digit_of_arc(acc, shuffles, v, j)
            out += [d // 2, d % 2]
        elif len(lv) == 2:
            out += [digit_of_arc(acc, shuffles, v, j)]
        v = int(acc[v][j])
    return out


# ---------------------------------------------------------------- VT check (C07)
def vt_spec(s, n):
    codes = [code(c) for c in s]
    first = NUC[sum(codes) % 4]
    ascent = sum(i for i in range(len(codes) - 1) if codes[i] < codes[i + 1])
    return first + "".join(NUC[d] for d in render(ascent % ipow(4, n - 1), n - 1, 4))


# ---------------------------------------------------------------- local filter (C12, C02)
def revcomp(s):
    return "".join({"A": "T", "C": "G", "G": "C", "T": "A"}[c] for c in reversed(s))


def occurs(m, s):
    return any(s[p:p + len(m)] == m for p in range(len(s) - len(m) + 1))


def filter_spec(k, run, gc, motifs, s):
    """whole-sequence verdict of the documented window predicate.  k observed length, run maximum
    homopolymer run or None, gc (lo, hi) or None, motifs list or None."""
    if any(c not in ("A", "C", "G", "T") for c in s):
        return False
    if run is not None:
        for c in NUC:
            if occurs(c * (run + 1), s):
                return False
    if motifs is not None:
        for m in motifs:
            if occurs(m, s):
                return False
            rc = "".join({"A": "T", "C": "G", "G": "C", "T": "A"}.get(c, c) for c in m)[::-1].upper()
            if occurs(rc, s):
                return False
    if gc is not None:
        lo, hi = gc[0], gc[1]
        if len(s) >= k:
            for i in range(len(s) - k + 1):
                w = s[i:i + k]
                g = sum(1 for c in w if c in "CG")
                if g > hi * k or g < lo * k:
                    return False
        else:
            g = sum(1 for c in s if c in "CG")
            a = sum(1 for c in s if c in "AT")
            if g > hi * k or a > (1 - lo) * k:
                return False
    return True


def window_decidable(k, run, motifs):
    return (run is None or run < k) and (motifs is None or all(len(m) <= k for m in motifs))


# ---------------------------------------------------------------- coding graph (C03)
def greatest_closed(mask, k, t):
    """vertex set of the largest induced sub-graph of the order-k de Bruijn graph inside `mask` in which every
    vertex has >= t retained successors and (t == 1) reaches a vertex with >= 2 retained successors."""
    n = ipow(4, k)
    s = {v for v in range(n) if mask[v]}
    while True:
        changed = True
        while changed:
            drop = {v for v in s if sum(1 for j in range(4) if succ(v, j, k) in s) < t}
            changed = bool(drop)
            s -= drop
        if t != 1:
            return s
        good = {v for v in s if sum(1 for j in range(4) if succ(v, j, k) in s) >= 2}
        frontier = set(good)
        while frontier:
            nxt = set()
            for v in frontier:
                for f in range(4):
                    u = pred(v, f, k)
                    if u in s and u not in good:
                        good.add(u)
                        nxt.add(u)
            frontier = nxt
        if good == s:
            return s
        s = good


def wf_graph(acc, start):
    """every vertex reachable from start has an arc and can reach a branching vertex."""
    seen, todo = {start}, [start]
    while todo:
        v = todo.pop()
        for j in live(acc, v):
            w = int(acc[v][j])
            if w not in seen:
                seen.add(w)
                todo.append(w)
    for v in seen:
        if not live(acc, v):
            return False
    ok = {v for v in seen if len(live(acc, v)) >= 2}
    changed = True
    while changed:
        changed = False
        for v in seen:
            if v not in ok and any(int(acc[v][j]) in ok for j in live(acc, v)):
                ok.add(v)
                changed = True
    return ok == seen


# ---------------------------------------------------------------- latter map / matrix (C14)
def latter_map_spec(acc):
    return {v: [int(acc[v][j]) for j in live(acc, v)] for v in range(len(acc)) if live(acc, v)}


def leaf_multiset(acc, root, depth):
    branch = [root]
    for _ in range(depth):
        branch = [int(acc[v][j]) for v in branch for j in live(acc, v)]
    return sorted(branch)


# ---------------------------------------------------------------- intersection scores (C19)
def leaf_set(latter_map, root, depth):
    branch = [root]
    for _ in range(depth):
        branch = [w for v in branch for w in latter_map.get(v, [])]
    return set(branch)


def intersection_scores(latter_map, k, has_insertion, has_deletion):
    """score of arc u -> v (stored at [u][v % 4]) in the scheme the arc-removal heuristic uses, restated over SETS of end points of
    (k-1)-step walks L(x):  substitution: sum over the sibling arcs u -> v' (v' != v) of |L(v) | L(v')| ;  insertion: sum over the arcs
    v -> w of |L(v) | L(w)| ;  deletion: |L(v) | L(u)|."""
    n = 4 ** k
    scores = [[0, 0, 0, 0] for _ in range(n)]
    depth = k - 1
    for u, succs in latter_map.items():
        leaves = [leaf_set(latter_map, v, depth) for v in succs]
        for a in range(len(succs)):
            col = succs[a] % 4
            for b in range(len(succs)):
                if a != b:
                    scores[u][col] += len(leaves[a] | leaves[b])
            if has_insertion:
                for w in latter_map.get(succs[a], []):
                    scores[u][col] += len(leaves[a] | leaf_set(latter_map, w, depth))
            if has_deletion:
                scores[u][col] += len(leaves[a] | leaf_set(latter_map, u, depth))
    return scores
