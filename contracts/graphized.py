"""Sidecar contracts for dsw/graphized.py."""

CONTRACTS = [
    # ------------------------------------------------------------------ C13
    dict(
        name="dsw.graphized.obtain_latters", n_loops=1, candidates={"observed_length": [1, 2, 3, 5, 12]},
        params={"current": "nat", "observed_length": "nat"},
        requires={"order": "observed_length >= 1", "vertex": "current < ipow(4, observed_length)"},
        returns="list_int[4]",
        ensures={
            "length": "len(result) == 4",
            "shift-append": "forall(lambda j: result[j] == (current % ipow(4, observed_length - 1)) * 4 + j, 0, 4)",
            "successors": "forall(lambda j: result[j] == succ(current, j, observed_length), 0, 4)",
            "range": "forall(lambda j: 0 <= result[j] < ipow(4, observed_length), 0, 4)",
        },
        raises={},
        ghost={"entry": "ipow_mono(4, 0, observed_length - 1)\nassert ipow(4, observed_length) == 4 * ipow(4, observed_length - 1), 'pow-step'"},
    ),
    dict(
        name="dsw.graphized.obtain_formers", n_loops=1, candidates={"observed_length": [1, 2, 3, 5, 12]},
        params={"current": "nat", "observed_length": "nat"},
        requires={"order": "observed_length >= 1", "vertex": "current < ipow(4, observed_length)"},
        returns="list_int[4]",
        ensures={
            "length": "len(result) == 4",
            "shift-prepend": "forall(lambda f: result[f] == current // 4 + f * ipow(4, observed_length - 1), 0, 4)",
            "range": "forall(lambda f: 0 <= result[f] < ipow(4, observed_length), 0, 4)",
        },
        raises={},
        ghost={"entry": "ipow_mono(4, 0, observed_length - 1)\nassert ipow(4, observed_length) == 4 * ipow(4, observed_length - 1), 'pow-step'"},
    ),
    dict(
        name="dsw.graphized.get_complete_accessor", n_loops=2, candidates={"observed_length": [1, 2, 3, 4]},
        params={"observed_length": "nat", "verbose": "false"},
        requires={"order": "observed_length >= 1"},
        returns="mat(ipow(4, observed_length), 4)",
        ensures={
            "shape": "len(result) == ipow(4, observed_length) and len(result[0]) == 4",
            "successor-in-column-j": "forall(lambda v: forall(lambda j: result[v][j] == (v % ipow(4, observed_length - 1)) * 4 + j, 0, 4), 0, ipow(4, observed_length))",
        },
        raises={},
        ghost={"entry": "ipow_mono(4, 0, observed_length)"},
        loops={1: dict(binds="range(int(4 ** observed_length))", invariant={
            "finished-rows": "forall(lambda v: forall(lambda j: accessor[v][j] == (v % ipow(4, observed_length - 1)) * 4 + j, 0, 4), 0, _i)"})},
    ),
    # ------------------------------------------------------------------ C14
    dict(
        name="dsw.graphized.obtain_vertices", n_loops=0, candidates={},
        ghost_params={"k": "nat"},
        params={"accessor": "mat(ipow(4, k), 4)"},
        requires={"graph": "k >= 1 and is_accessor(accessor, k)"},
        returns="nd_int",
        ensures={"vertices-with-arcs-ascending": "sorted_positions(result, accessor, k, ipow(4, k))"},
        raises={},
        ghost={"entry": "ipow_mono(4, 0, k)"},
    ),
    dict(
        name="dsw.graphized.accessor_to_latter_map", n_loops=1,
        ghost_params={"k": "nat"},
        params={"accessor": "mat(ipow(4, k), 4)", "verbose": "false"},
        requires={"graph": "k >= 1 and is_accessor(accessor, k)"},
        returns="dict",
        ensures={"keys-and-successor-lists": "lm_of(result, accessor, k)",
                 "keys-in-ascending-order": "sorted_positions(order(result), accessor, k, ipow(4, k))"},
        raises={},
        ghost={"entry": "ipow_mono(4, 0, k)", "loop1_begin": "mark(location)\n" + "".join("if accessor[location][%d] >= 0:\n    pass\n" % j for j in range(4))},
        loops={1: dict(binds="enumerate(locations)", invariant={
            "keys-so-far": "lm_of(latter_map, accessor, k, ite(_i < len(locations), locations[_i], ipow(4, k)))",
            "order-so-far": "len(order(latter_map)) == _i and forall(lambda i: order(latter_map)[i] == locations[i], 0, _i)"})},
    ),
    dict(name="dsw.graphized.latter_map_to_accessor", abstract=True,
         dispatch={"param": "threshold", "NoneV": "dsw.graphized.latter_map_to_accessor#plain"}),
    dict(
        name="dsw.graphized.latter_map_to_accessor#plain", function="dsw.graphized.latter_map_to_accessor", variant_of="dsw.graphized.latter_map_to_accessor",
        n_loops=2,
        # acc0: the accessor the latter map describes (ghost): the result must be exactly it
        ghost_params={"acc0": "mat(ipow(4, observed_length), 4)"},
        params={"latter_map": "dict", "observed_length": "nat", "threshold": "none", "verbose": "false"},
        requires={"graph": "observed_length >= 1 and is_accessor(acc0, observed_length)",
                  "describes-acc0": "lm_of(latter_map, acc0, observed_length)",
                  "keys-in-ascending-order": "sorted_positions(order(latter_map), acc0, observed_length, ipow(4, observed_length))"},
        returns="mat(ipow(4, observed_length), 4)",
        ensures={"shape": "len(result) == ipow(4, observed_length) and len(result[0]) == 4",
                 "same-accessor": "forall(lambda v: forall(lambda j: result[v][j] == acc0[v][j], 0, 4), 0, ipow(4, observed_length), lambda v: result[v])"},
        raises={},
        ghost={"entry": "ipow_mono(4, 0, observed_length)",
               "loop1_begin": "acc_h = accessor\nassert haskey(latter_map, former_vertex), 'listed-key'\n" +
                              "".join("if acc0[former_vertex][%d] >= 0:\n    pass\n" % j for j in range(4)),
               "loop1_end": "".join("assert accessor[former_vertex][%d] == acc0[former_vertex][%d], 'column-%d'\n" % (j, j, j) for j in range(4)) +
                            "cut(forall(lambda v: forall(lambda j: acc_h[v][j] == -1, 0, 4) or forall(lambda j: acc_h[v][j] == acc0[v][j], 0, 4), "
                            "0, ipow(4, observed_length), lambda v: acc_h[v]),\n"
                            "    forall(lambda v: implies(v != former_vertex, forall(lambda j: accessor[v][j] == acc_h[v][j], 0, 4)), 0, ipow(4, observed_length), "
                            "lambda v: accessor[v]),\n"
                            "    forall(lambda i: forall(lambda j: acc_h[order(latter_map)[i]][j] == acc0[order(latter_map)[i]][j], 0, 4), 0, _i, "
                            "lambda i: order(latter_map)[i]),\n"
                            "    forall(lambda i: order(latter_map)[i] < former_vertex, 0, _i, lambda i: order(latter_map)[i]),\n"
                            "    former_vertex == order(latter_map)[_i], 0 <= _i, 0 <= former_vertex, former_vertex < ipow(4, observed_length),\n"
                            "    accessor[former_vertex][0] == acc0[former_vertex][0], accessor[former_vertex][1] == acc0[former_vertex][1],\n"
                            "    accessor[former_vertex][2] == acc0[former_vertex][2], accessor[former_vertex][3] == acc0[former_vertex][3])\n",
               "after_loop1": "pv_ = 0\npr = 0\n"
                              "while pv_ < ipow(4, observed_length):\n"
                              "    if pr < len(order(latter_map)) and order(latter_map)[pr] == pv_:\n"
                              "        pr += 1\n"
                              "    else:\n"
                              "        assert deg(acc0, pv_) == 0, 'unlisted-vertex-has-no-arc'\n"
                              "    pv_ += 1\n"},
        loops={1: dict(binds="enumerate(latter_map.items())", invariant={
            "listed-rows-done": "forall(lambda i: forall(lambda j: accessor[order(latter_map)[i]][j] == acc0[order(latter_map)[i]][j], 0, 4), 0, _i, "
                                "lambda i: order(latter_map)[i])",
            "rows-empty-or-done": "forall(lambda v: forall(lambda j: accessor[v][j] == -1, 0, 4) or forall(lambda j: accessor[v][j] == acc0[v][j], 0, 4), "
                                  "0, ipow(4, observed_length), lambda v: accessor[v])",
        }),
        "after_loop1#1": dict(invariant={
            "range": "0 <= pv_ <= ipow(4, observed_length) and 0 <= pr <= len(order(latter_map))",
            "next-key-ahead": "implies(pr < len(order(latter_map)), order(latter_map)[pr] >= pv_)",
            "previous-key-behind": "implies(pr > 0, order(latter_map)[pr - 1] < pv_)",
            "rows-equal-so-far": "forall(lambda v: forall(lambda j: accessor[v][j] == acc0[v][j], 0, 4), 0, pv_, lambda v: accessor[v])",
        }, variant="ipow(4, observed_length) - pv_")},
    ),
    # ------------------------------------------------------------------ C19 (callee of remove_nasty_arc)
    dict(
        # The contract used at the call site in remove_nasty_arc.  Shape and sign are PROVED on the real function by the variant #shape-sign below; what is
        # ASSUMED here is only the definitional clause: the table is a function (iscore) of the graph, the order and the two flags - i.e. the function is
        # deterministic and reads nothing else (purity analysis, C20).  The numeric value of the scores is checked in the bounded tier (bounded/C19.py).
        name="dsw.graphized.calculate_intersection_score", assumed=True, n_loops=0,
        params={"latter_map": "dict", "observed_length": "nat", "has_insertion": "bool", "has_deletion": "bool", "verbose": "false"},
        requires={}, returns="mat(ipow(4, observed_length), 4)",
        ensures={"non-negative": "forall(lambda v: forall(lambda j: result[v][j] >= 0, 0, 4), 0, ipow(4, observed_length), lambda v: result[v])",
                 # the table is a function of the graph, the order and the two flags (iscore: uninterpreted - what the score is, is not stated here)
                 "is-the-score-table": "forall(lambda v: forall(lambda j: result[v][j] == iscore(latter_map, observed_length, has_insertion, has_deletion, v, j), "
                                       "0, 4), 0, ipow(4, observed_length), lambda v: result[v])"},
        raises={},
    ),
    # ------------------------------------------------------------------ C08 (helper of repair_dna): every fragment path_matching returns is a
    # single edit of the chunk at the given position whose tail is a walk from the previous vertex
]


def path_matching_variant(indel):
    inv = ("ite(candidate[0][0] == 'S', "
           "candidate[0][1] == occur_location and not (candidate[0][2] == dna_sequence[occur_location]) and is_dna(candidate[0][2]) and len(candidate[0][2]) == 1 and "
           "is_subst(candidate[1], dna_sequence, occur_location, candidate[0][2]) and accessor[previous_index][code(candidate[0][2])] >= 0 and "
           "walkv(accessor, dna_sequence[occur_location + 1:], accessor[previous_index][code(candidate[0][2])], len(dna_sequence) - occur_location - 1) >= 0, "
           "ite(candidate[0][0] == 'I', "
           "candidate[0][1] == occur_location and is_dna(candidate[0][2]) and len(candidate[0][2]) == 1 and "
           "is_ins(candidate[1], dna_sequence, occur_location, candidate[0][2]) and accessor[previous_index][code(candidate[0][2])] >= 0 and "
           "walkv(accessor, dna_sequence[occur_location:], accessor[previous_index][code(candidate[0][2])], len(dna_sequence) - occur_location) >= 0, "
           "candidate[0][0] == 'D' and candidate[0][1] == occur_location and candidate[0][2] == dna_sequence[occur_location] and "
           "is_del(candidate[1], dna_sequence, occur_location) and "
           "walkv(accessor, dna_sequence[occur_location + 1:], previous_index, len(dna_sequence) - occur_location - 1) >= 0))")
    walk_inv = lambda suffix: {
        "on-the-walk": "vertex_index == walkv(accessor, " + suffix + ", v1, _i) and 0 <= vertex_index and vertex_index < ipow(4, k) and reliable"}
    exact = ("if not reliable:\n"
             "    walk_dead(A2(accessor), A(sfx), P(sfx, 0), v1, _i + 1, len(sfx))\n"
             "assert reliable == (walkv(accessor, sfx, v1, len(sfx)) >= 0), 'the-decision-is-exact'")
    ghost = {"entry": "ipow_mono(4, 0, k)",
             # completeness of the candidate enumeration: every live arc of the previous vertex is tried (as a substitution unless it is the original, as an insertion)
             "after_assign:used_indices": "assert forall(lambda c: implies(accessor[previous_index][c] >= 0, exists(lambda i: used_indices[i] == c, 0, len(used_indices))), 0, 4), "
                                          "'every-live-arc-is-a-candidate'",
             "before_loop2": "v1 = vertex_index\nsfx = dna_sequence[occur_location + 1:]",
             "before_loop4": "v1 = vertex_index\nsfx = dna_sequence[occur_location:]",
             "before_loop5": "v1 = vertex_index\nsfx = dna_sequence[occur_location + 1:]",
             "after_loop2": exact, "after_loop4": exact, "after_loop5": exact,
             "loop2_begin": "mark(code(nucleotide))\n" + "".join("if accessor[vertex_index][%d] >= 0:\n    pass\n" % j for j in range(4)),
             "loop4_begin": "mark(code(nucleotide))\n" + "".join("if accessor[vertex_index][%d] >= 0:\n    pass\n" % j for j in range(4)),
             "loop5_begin": "mark(code(nucleotide))\n" + "".join("if accessor[vertex_index][%d] >= 0:\n    pass\n" % j for j in range(4))}
    return dict(
        name="dsw.graphized.path_matching#" + ("indel" if indel else "subst"), function="dsw.graphized.path_matching", variant_of="dsw.graphized.path_matching",
        n_loops=5, ghost_params={"k": "nat"},
        params={"dna_sequence": "dna", "accessor": "mat(ipow(4, k), 4)", "previous_index": "nat", "occur_location": "nat",
                "has_indel": "true" if indel else "false", "nucleotides": "none"},
        requires={"graph": "k >= 1 and is_accessor(accessor, k)", "vertex": "previous_index < ipow(4, k)", "position": "occur_location < len(dna_sequence)"},
        returns="tuple",
        # the two outer loops run over at most four candidate nucleotides: their bodies are verified for an ARBITRARY element of the candidate list
        havoc_loops=(1, 3),
        types={"visited_count": "int"},
        collections={"repair_info": inv},
        ensures={"every-fragment-is-a-walkable-single-edit": "candidates_ok(result[0], 'repair_info')", "count-is-an-integer": "result[1] == result[1]"},
        raises={},
        concrete_inputs="[dict(k=k_, dna_sequence=w_, accessor=a_, previous_index=p_, occur_location=l_, has_indel=" + ("True" if indel else "False") + ", nucleotides=None) "
                        "for k_ in (1, 2) for (a_, s_, w_) in walk_cases(k_)[:40] for p_ in range(min(4 ** k_, 6)) for l_ in range(min(len(w_), 5))]",
        ghost=ghost,
        loops={2: dict(binds="enumerate(dna_sequence[occur_location + 1:])", invariant=walk_inv("dna_sequence[occur_location + 1:]")),
               4: dict(binds="dna_sequence[occur_location:]", invariant=walk_inv("dna_sequence[occur_location:]")),
               5: dict(binds="enumerate(dna_sequence[occur_location + 1:])", invariant=walk_inv("dna_sequence[occur_location + 1:]"))},
    )


CONTRACTS = CONTRACTS + [
    dict(name="dsw.graphized.path_matching", abstract=True, dispatch={"param": "has_indel", "true": "dsw.graphized.path_matching#indel", "false": "dsw.graphized.path_matching#subst"}),
    path_matching_variant(False), path_matching_variant(True),
]


# ------------------------------------------------------------------ C19: shape and sign of the score table, on the real calculate_intersection_score
SCORES_OK = ("forall(lambda v: forall(lambda j: scores[v][j] >= 0 and implies(scores[v][j] > 0, acc0[v][j] >= 0), 0, 4), 0, ipow(4, observed_length), "
             "lambda v: scores[v])")
CONTRACTS = CONTRACTS + [
    dict(name="dsw.graphized.obtain_leaf_vertices", abstract=True,
         dispatch={"param": "accessor", "Mat": "dsw.graphized.obtain_leaf_vertices#accessor", "NoneV": "dsw.graphized.obtain_leaf_vertices#latter-map",
                   "fallback": "dsw.graphized.obtain_leaf_vertices#some-array"}),
    dict(
        # used where the caller carries no ghost description of the graph (inside calculate_intersection_score): ASSUMED there - the leaf query returns
        # some 1-D integer array and modifies nothing; only the lengths of unions of such arrays enter the scores.  (The precise contracts
        # #accessor / #latter-map below are verified on the real function.)
        name="dsw.graphized.obtain_leaf_vertices#some-array", function="dsw.graphized.obtain_leaf_vertices", variant_of="dsw.graphized.obtain_leaf_vertices",
        assumed=True, n_loops=5,
        params={"vertex_index": "int", "depth": "int", "accessor": "none", "latter_map": "dict"},
        requires={}, returns="nd_int", ensures={"an-array": "len(result) >= 0"}, raises={},
    ),
    dict(
        name="dsw.graphized.calculate_intersection_score#shape-sign", function="dsw.graphized.calculate_intersection_score",
        variant_of="dsw.graphized.calculate_intersection_score", n_loops=6,
        # acc0: the accessor the latter map describes (ghost)
        ghost_params={"acc0": "mat(ipow(4, observed_length), 4)"},
        params={"latter_map": "dict", "observed_length": "nat", "has_insertion": "bool", "has_deletion": "bool", "verbose": "false"},
        requires={"graph": "observed_length >= 1 and is_accessor(acc0, observed_length)", "describes-acc0": "lm_of(latter_map, acc0, observed_length)"},
        returns="mat(ipow(4, observed_length), 4)",
        ensures={"shape": "len(result) == ipow(4, observed_length) and len(result[0]) == 4",
                 "non-negative-and-positive-only-on-arcs": "forall(lambda v: forall(lambda j: result[v][j] >= 0 and implies(result[v][j] > 0, acc0[v][j] >= 0), 0, 4), "
                                                           "0, ipow(4, observed_length), lambda v: result[v])"},
        raises={},
        types={"mutate_branches": "list_obj"},
        ghost={"entry": "ipow_mono(4, 0, observed_length)\nipow_mono(4, 0, observed_length - 1)\n"
                        "assert ipow(4, observed_length) == 4 * ipow(4, observed_length - 1), 'pow-step'",
               "loop1_begin": "mark(current_index)\nassert haskey(latter_map, current_index), 'listed-key'\n" +
                              "".join("if acc0[current_index][%d] >= 0:\n    pass\n" % j for j in range(4)),
               "loop4_begin": "if index == 0:\n    pass\nelif index == 1:\n    pass\nelif index == 2:\n    pass\n"},
        loops={1: dict(binds="enumerate(currents)", invariant={"scores-so-far": SCORES_OK}),
               4: dict(binds="enumerate(latter_map[current_index])", invariant={"scores-so-far": SCORES_OK}),
               5: dict(binds="latter_map[former_index]", invariant={"scores-so-far": SCORES_OK})},
    ),
]


# ------------------------------------------------------------------ C14: accessor <-> adjacency matrix
CONTRACTS = CONTRACTS + [
    dict(
        name="dsw.graphized.accessor_to_adjacency_matrix", n_loops=1,
        ghost_params={"k": "nat"},
        params={"accessor": "mat(ipow(4, k), 4)", "maximum_length": "nat", "verbose": "false"},
        requires={"graph": "k >= 1 and is_accessor(accessor, k)"},
        returns="mat(ipow(4, k), ipow(4, k))",
        # arc_rows(m, acc, lo, hi): for lo <= v < hi and every column w: m[v][w] = 1 if w is one of the four entries of accessor row v, else 0
        ensures={"shape": "len(result) == ipow(4, k) and len(result[0]) == ipow(4, k)",
                 "one-exactly-at-the-arcs": "arc_rows(result, accessor, 0, ipow(4, k))"},
        raises={"MemoryError": "ipow(4, k) >= ipow(4, maximum_length)"},
        ghost={"entry": "ipow_mono(4, 0, k)",
               "loop1_begin": "mark(vertex_index)\n" + "".join("if accessor[vertex_index][%d] >= 0:\n    pass\n" % j for j in range(4))},
        loops={1: dict(binds="enumerate(accessor)", invariant={
            "finished-rows": "arc_rows(matrix, accessor, 0, _i)",
            "untouched-rows": "zero_rows(matrix, _i, ipow(4, k))"})},
    ),
]

CONTRACTS = CONTRACTS + [
    dict(
        name="dsw.graphized.adjacency_matrix_to_accessor", n_loops=1,
        ghost_params={"k": "nat"},
        params={"matrix": "mat(ipow(4, k), ipow(4, k))", "verbose": "false"},
        requires={"order": "k >= 1 and k <= 31"},
        returns="mat(ipow(4, k), 4)",
        ensures={"shape": "len(result) == ipow(4, k) and len(result[0]) == 4",
                 "column-j-holds-the-j-th-successor-or-nothing": "forall(lambda v: forall(lambda j: result[v][j] == ite(matrix[v][succ(v, j, k)] == 1, succ(v, j, k), -1), 0, 4), "
                                                                 "0, ipow(4, k), lambda v: result[v])"},
        # a matrix with a 1 that is not a de Bruijn shift is rejected, and only such a matrix
        raises={"ValueError": "not legal_rows(matrix, k, 0, ipow(4, k))"},
        ghost={"entry": "ipow_mono(4, 0, k)\nipow_mono(4, 0, k - 1)\nassert ipow(4, k) == 4 * ipow(4, k - 1), 'pow-step'",
               "loop1_begin": "mark(vertex_index)"},
        loops={1: dict(binds="enumerate(matrix)", invariant={
            "finished-rows": "forall(lambda v: forall(lambda j: accessor[v][j] == ite(matrix[v][succ(v, j, k)] == 1, succ(v, j, k), -1), 0, 4), 0, _i, lambda v: accessor[v])",
            "legal-so-far": "legal_rows(matrix, k, 0, _i)",
            "order": "observed_length == k"})},
    ),
]


# ------------------------------------------------------------------ C14: leaf queries = end points of all depth-step walks, from either representation
LEAF_OUTER = {"length": "len(branch) == levn(G, vertex_index, _i)",
              "entries": "forall(lambda p: branch[p] == lev(G, vertex_index, _i, p) and 0 <= branch[p] and branch[p] < ipow(4, k), 0, len(branch), lambda p: branch[p])"}
LEAF_INNER = {"length": "len(level) == fmn(G, branch, _i) and len(level) >= 0",
              "entries": "forall(lambda p: level[p] == fm(G, branch, _i, p) and 0 <= level[p] and level[p] < ipow(4, k), 0, len(level), lambda p: level[p])"}
LEAF_STEP = ("fm_ext(A2(G), A(branch_h), P(branch_h, 0), levarr(G, vertex_index, step), 0, len(branch_h))\n"
             "assert len(level) == levn(G, vertex_index, step + 1), 'next-level-length'")


def leaf_variant(via_map):
    G = "acc0" if via_map else "accessor"
    fix = lambda d: {k_: v_.replace("G", G) for k_, v_ in d.items()}
    ghost = {"entry": "ipow_mono(4, 0, k)",
             "loop1_begin" if not via_map else "loop3_begin": "branch_h = branch",
             "loop2_begin" if not via_map else "loop4_begin": "mark(former_index)\n" + "".join("if %s[former_index][%d] >= 0:\n    pass\n" % (G, j) for j in range(4)),
             "after_loop2" if not via_map else "after_loop4": LEAF_STEP.replace("G", G)}
    return dict(
        name="dsw.graphized.obtain_leaf_vertices#" + ("latter-map" if via_map else "accessor"), function="dsw.graphized.obtain_leaf_vertices",
        variant_of="dsw.graphized.obtain_leaf_vertices", n_loops=5,
        ghost_params={"k": "nat", "acc0": "mat(ipow(4, k), 4)"} if via_map else {"k": "nat"},
        params={"vertex_index": "nat", "depth": "nat", "accessor": "none" if via_map else "mat(ipow(4, k), 4)", "latter_map": "dict" if via_map else "none"},
        requires=({"graph": "k >= 1 and is_accessor(acc0, k)", "describes-acc0": "lm_of(latter_map, acc0, k)", "vertex": "vertex_index < ipow(4, k)"} if via_map else
                  {"graph": "k >= 1 and is_accessor(accessor, k)", "vertex": "vertex_index < ipow(4, k)"}),
        returns="nd_int",
        # lev(G, v, d, p) / levn(G, v, d): the end points of the d-step walks from v, breadth first, successors in A<C<G<T order (recursive spec)
        ensures={"as-many-as-walks": ("len(result) == levn(%s, vertex_index, depth)" % G),
                 "their-end-points": ("forall(lambda p: result[p] == lev(%s, vertex_index, depth, p), 0, len(result), lambda p: result[p])" % G)},
        raises={},
        ghost=ghost,
        loops=({3: dict(binds="range(depth)", invariant=fix(LEAF_OUTER)), 4: dict(binds="branch", invariant=fix(LEAF_INNER))} if via_map else
               {1: dict(binds="range(depth)", invariant=fix(LEAF_OUTER)), 2: dict(binds="branch", invariant=fix(LEAF_INNER))}),
    )


CONTRACTS = CONTRACTS + [leaf_variant(False), leaf_variant(True)]


# ------------------------------------------------------------------------------------------------------------------ C03: remove_useless (latter-map trimming)
CONTRACTS = CONTRACTS + [dict(
    name="dsw.graphized.remove_useless", n_loops=4,
    # the two classification lists are only appended to and tested for membership: abstracted to their element sets (`list_members`)
    types={"remove_vertices": "list_members", "saved_vertices": "list_members"},
    # pos0: the position of every key in the insertion order (a fact about every Python dict, made explicit as a ghost function)
    # S: an ARBITRARY vertex set that is closed in the input map (universally quantified ghost input, as in connect_coding_graph#t234)
    ghost_params={"pos0": "arr", "S": "arr"},
    params={"latter_map": "dict", "threshold": "int", "verbose": "false"},
    requires={"short-lists": "lm_small(latter_map)", "every-key-is-listed-once": "lm_indexed(latter_map, pos0)",
              "S-is-closed-in-the-input": "lm_sclosed(latter_map, S, threshold)"},
    returns="dict", ghost_returns={"posR": "arr"},
    ensures={"sub-map": "lm_sub(result, old(latter_map))",
             # the insertion order of the result lists exactly its keys, each once (posR: the position of each key - an existential witness for callers)
             "every-key-of-the-result-is-listed-once": "lm_indexed(result, posR)",
             "closed": "lm_closed(result, threshold)",
             # ... and it contains every closed vertex set of the input: it is the LARGEST closed sub-map
             "contains-every-closed-subset": "lm_sclosed(result, S, threshold)"},
    raises={},
    # refutation: the real function on small latter maps (complete, and with a key removed so that some successors dangle), thresholds 0..4
    concrete_inputs="[dict(latter_map=m_, threshold=t_, verbose=False, pos0={a_: i_ for i_, a_ in enumerate(m_)}, S=s_) for m_ in small_latter_maps() for t_ in (0, 1, 2, 3, 4) for s_ in closed_sets(m_, t_)]",
    partial_correctness_loops=(1,),
    ghost={"entry": "posD = pos0\nposN = pos0\nposR = pos0",
           "before_loop3": "posN = pos0",
           "loop3_begin": "if former_vertex not in remove_vertices:\n    posN = aupd(posN, former_vertex, len(order(new_latter_map)))",
           # a list of the map has at most four entries: the position read is split into its four cases
           "loop4_begin": "if _i == 0:\n    pass\nelif _i == 1:\n    pass\nelif _i == 2:\n    pass\nelse:\n    pass\n"
                          "assert lmemb(latter_map, former_vertex, latter_vertex), 'the-entry-read-is-an-entry'",
           "after_assign:latter_map": "posD = posN\nposR = posN"},
    loops={1: dict(binds="True", invariant={"sub-map": "lm_sub(latter_map, old(latter_map))",
                                            "indexed": "lm_indexed(latter_map, posD)",
                                            "S-still-closed": "lm_sclosed(latter_map, S, threshold)"}),
           2: dict(binds="enumerate(latter_map.items())", invariant={
               "removed-are-small": "ml_sound(remove_vertices, latter_map, threshold, False)",
               "saved-are-big": "ml_sound(saved_vertices, latter_map, threshold, True)",
               "classified-so-far": "lm_classified(latter_map, posD, _i, remove_vertices, saved_vertices)",
               "no-member-of-S-removed": "ml_outside(remove_vertices, S)"}),
           3: dict(binds="enumerate(latter_map.items())", invariant={
               "sub-map-so-far": "lm_sub(new_latter_map, latter_map)",
               "indexed-so-far": "lm_indexed(new_latter_map, posN)",
               "new-keys-are-processed-keys": "forall(lambda i: posD[order(new_latter_map)[i]] < _i, 0, len(order(new_latter_map)))",
               "processed-so-far": "lm_processed(latter_map, posD, _i, remove_vertices, new_latter_map)",
               "kept-keys-are-big": "lm_kept_big(new_latter_map, latter_map, threshold)",
               "S-kept-so-far": "lm_skept(latter_map, posD, _i, new_latter_map, S, threshold)",
               "nothing-dropped-so-far": "implies(not remove_flag, lm_full(new_latter_map, latter_map, remove_vertices, saved_vertices))"}),
           4: dict(binds="latter_vertices", invariant={
               "taken-from-the-list": "0 <= len(available_latter_vertices) <= _i and "
                                      "forall(lambda q: lmemb(latter_map, former_vertex, available_latter_vertices[q]), 0, len(available_latter_vertices))",
               "kept-entries": "forall(lambda q: (available_latter_vertices[q] in saved_vertices) and not (available_latter_vertices[q] in remove_vertices), "
                               "0, len(available_latter_vertices))",
               "nothing-dropped-so-far": "implies(not remove_flag, lm_full(new_latter_map, latter_map, remove_vertices, saved_vertices) and "
                                         "len(available_latter_vertices) == _i)",
               "members-of-S-kept": "scount(S, latter_vertices, _i) <= scount(S, available_latter_vertices, len(available_latter_vertices))"})},
)]


# ------------------------------------------------------------------------------------------------------------------ C13 / C14: latter_map_to_accessor on ANY latter map
CONTRACTS = CONTRACTS + [dict(
    name="dsw.graphized.latter_map_to_accessor#any-order", function="dsw.graphized.latter_map_to_accessor", variant_of="dsw.graphized.latter_map_to_accessor",
    n_loops=2,
    # a caller-built latter map: keys in any insertion order, every list holds shift successors of its key in ANY order (repetitions allowed)
    ghost_params={"pos0": "arr"},
    params={"latter_map": "dict", "observed_length": "nat", "threshold": "none", "verbose": "false"},
    requires={"order": "observed_length >= 1", "every-key-is-listed-once": "lm_indexed(latter_map, pos0)",
              "lists-hold-shift-successors": "lm_shift(latter_map, observed_length)"},
    returns="mat(ipow(4, observed_length), 4)",
    ensures={"shape": "len(result) == ipow(4, observed_length) and len(result[0]) == 4",
             "column-is-the-last-nucleotide": "lm_written(result, latter_map, observed_length)"},
    raises={},
    ghost={"entry": "ipow_mono(4, 0, observed_length)",
           "loop1_begin": "assert haskey(latter_map, former_vertex) and pos0[former_vertex] == _i, 'listed-key'\n"
                          "if len(latter_vertices) == 0:\n    pass\nelif len(latter_vertices) == 1:\n    pass\nelif len(latter_vertices) == 2:\n    pass\n"
                          "elif len(latter_vertices) == 3:\n    pass\nelse:\n    pass\n"},
    loops={1: dict(binds="enumerate(latter_map.items())", invariant={
        "rows-so-far": "lm_written(accessor, latter_map, observed_length, pos0, _i)"})},
    concrete_inputs="[dict(latter_map=m_, observed_length=k_, threshold=None, verbose=False, pos0={a_: i_ for i_, a_ in enumerate(m_)}) "
                    "for k_ in (1, 2) for m_ in scrambled_latter_maps(k_)]",
)]


# ------------------------------------------------------------------------------------------------------------------ C03: latter_map_to_accessor with a threshold
CONTRACTS = CONTRACTS + [dict(
    name="dsw.graphized.latter_map_to_accessor#threshold", function="dsw.graphized.latter_map_to_accessor", variant_of="dsw.graphized.latter_map_to_accessor",
    n_loops=2,
    # trimming (remove_useless, used by its contract) followed by the conversion: the accessor written is the accessor of the LARGEST CLOSED SUB-MAP
    # (`trimmed`, an existential witness): a sub-map of the input, closed for the threshold, containing every vertex set S closed in the input
    ghost_params={"pos0": "arr", "S": "arr"}, ghost_returns={"trimmed": "dict"},
    params={"latter_map": "dict", "observed_length": "nat", "threshold": "int", "verbose": "false"},
    requires={"order": "observed_length >= 1", "short-lists": "lm_small(latter_map)", "every-key-is-listed-once": "lm_indexed(latter_map, pos0)",
              "lists-hold-shift-successors": "lm_shift(latter_map, observed_length)",
              "S-is-closed-in-the-input": "lm_sclosed(latter_map, S, threshold)"},
    returns="mat(ipow(4, observed_length), 4)",
    ensures={"shape": "len(result) == ipow(4, observed_length) and len(result[0]) == 4",
             "accessor-of-the-trimmed-map": "lm_written(result, trimmed, observed_length)",
             "trimmed-is-the-largest-closed-sub-map": "lm_sub(trimmed, old(latter_map)) and lm_closed(trimmed, threshold) and lm_sclosed(trimmed, S, threshold)"},
    raises={},
    ghost={"entry": "ipow_mono(4, 0, observed_length)\ntrimmed = latter_map",
           "after_assign:latter_map": "trimmed = latter_map\nassert lm_shift(latter_map, observed_length), 'trimmed-lists-hold-shift-successors'",
           "loop1_begin": "assert haskey(latter_map, former_vertex) and remove_useless_posR[former_vertex] == _i, 'listed-key'\n"
                          "if len(latter_vertices) == 0:\n    pass\nelif len(latter_vertices) == 1:\n    pass\nelif len(latter_vertices) == 2:\n    pass\n"
                          "elif len(latter_vertices) == 3:\n    pass\nelse:\n    pass\n"},
    loops={1: dict(binds="enumerate(latter_map.items())", invariant={
        "rows-so-far": "lm_written(accessor, latter_map, observed_length, remove_useless_posR, _i)"})},
)]
