"""Sidecar contracts for dsw/graphized.py."""

CONTRACTS = [
    # ------------------------------------------------------------------ C13
    dict(
        name="dsw.graphized.obtain_latters", n_loops=1, candidates={"observed_length": [1, 2, 3, 5, 12]},
        params={"current": "nat", "observed_length": "nat"},
        requires={"order": "observed_length >= 1", "vertex": "current < ipow(4, observed_length)"},
        returns="list_int[4]",
        ensures={
            "length": "len(result) == 4",
            "shift-append": "forall(lambda j: result[j] == (current % ipow(4, observed_length - 1)) * 4 + j, 0, 4)",
            "successors": "forall(lambda j: result[j] == succ(current, j, observed_length), 0, 4)",
            "range": "forall(lambda j: 0 <= result[j] < ipow(4, observed_length), 0, 4)",
        },
        raises={},
        ghost={"entry": "ipow_mono(4, 0, observed_length - 1)\nassert ipow(4, observed_length) == 4 * ipow(4, observed_length - 1), 'pow-step'"},
    ),
    dict(
        name="dsw.graphized.obtain_formers", n_loops=1, candidates={"observed_length": [1, 2, 3, 5, 12]},
        params={"current": "nat", "observed_length": "nat"},
        requires={"order": "observed_length >= 1", "vertex": "current < ipow(4, observed_length)"},
        returns="list_int[4]",
        ensures={
            "length": "len(result) == 4",
            "shift-prepend": "forall(lambda f: result[f] == current // 4 + f * ipow(4, observed_length - 1), 0, 4)",
            "range": "forall(lambda f: 0 <= result[f] < ipow(4, observed_length), 0, 4)",
        },
        raises={},
        ghost={"entry": "ipow_mono(4, 0, observed_length - 1)\nassert ipow(4, observed_length) == 4 * ipow(4, observed_length - 1), 'pow-step'"},
    ),
    dict(
        name="dsw.graphized.get_complete_accessor", n_loops=2, candidates={"observed_length": [1, 2, 3, 4]},
        params={"observed_length": "nat", "verbose": "false"},
        requires={"order": "observed_length >= 1"},
        returns="mat(ipow(4, observed_length), 4)",
        ensures={
            "shape": "len(result) == ipow(4, observed_length) and len(result[0]) == 4",
            "successor-in-column-j": "forall(lambda v: forall(lambda j: result[v][j] == (v % ipow(4, observed_length - 1)) * 4 + j, 0, 4), 0, ipow(4, observed_length))",
        },
        raises={},
        ghost={"entry": "ipow_mono(4, 0, observed_length)"},
        loops={1: dict(binds="range(int(4 ** observed_length))", invariant={
            "finished-rows": "forall(lambda v: forall(lambda j: accessor[v][j] == (v % ipow(4, observed_length - 1)) * 4 + j, 0, 4), 0, _i)"})},
    ),
]
