"""Sidecar contracts for dsw/spiderweb.py."""

SUCC = "succ(u, j, observed_length)"

CONTRACTS = [
    # ------------------------------------------------------------------ C11
    dict(
        name="dsw.spiderweb.find_vertices", n_loops=1, candidates={"observed_length": [1, 2, 3]},
        params={"observed_length": "nat", "bio_filter": "obj:AbstractFilter", "verbose": "false"},
        requires={"order": "observed_length >= 1"},
        returns="nd_bool",
        ensures={
            "length": "len(result) == ipow(4, observed_length)",
            "mirrors-filter": "forall(lambda i: (result[i] != 0) == accepts(bio_filter, i, observed_length), 0, ipow(4, observed_length))",
        },
        raises={"ValueError": "forall(lambda i: not accepts(bio_filter, i, observed_length), 0, ipow(4, observed_length))"},
        ghost={"entry": "ipow_mono(4, 0, observed_length)",
               "after_loop1": "ssum_zero_iff(A(vertices), D(vertices), P(vertices, 0), P(vertices, len(vertices)))"},
        loops={1: dict(binds="range(len(vertices))", invariant={
            "length": "len(vertices) == ipow(4, observed_length)",
            "bool-entries": "forall(lambda i: vertices[i] == 0 or vertices[i] == 1, 0, len(vertices))",
            "mirrors-filter-so-far": "forall(lambda i: (vertices[i] != 0) == accepts(bio_filter, i, observed_length), 0, _i)"})},
    ),
    dict(name="dsw.spiderweb.connect_valid_graph", abstract=True,
         dispatch={"param": "vertices", "Seq": "dsw.spiderweb.connect_valid_graph#mask", "NoneV": "dsw.spiderweb.connect_valid_graph#none"}),
    dict(
        name="dsw.spiderweb.connect_valid_graph#none", function="dsw.spiderweb.connect_valid_graph", variant_of="dsw.spiderweb.connect_valid_graph",
        n_loops=2, params={"observed_length": "nat", "vertices": "none", "verbose": "false"},
        returns="none", ensures={}, raises={"ValueError": "True"},
    ),
    dict(
        name="dsw.spiderweb.connect_valid_graph#mask", function="dsw.spiderweb.connect_valid_graph", variant_of="dsw.spiderweb.connect_valid_graph",
        n_loops=2, candidates={"observed_length": [1, 2]},
        params={"observed_length": "nat", "vertices": "nd_bits", "verbose": "false"},
        requires={"order": "observed_length >= 1", "mask-length": "len(vertices) == ipow(4, observed_length)"},
        returns="mat(ipow(4, observed_length), 4)",
        ensures={
            "shape": "len(result) == ipow(4, observed_length) and len(result[0]) == 4",
            "arcs-inside-mask": "forall(lambda u: forall(lambda j: result[u][j] == ite(vertices[u] != 0 and vertices[" + SUCC + "] != 0, " + SUCC + ", -1), 0, 4), "
                                "0, ipow(4, observed_length), lambda u: result[u])",
        },
        raises={"ValueError": "forall(lambda i: vertices[i] == 0, 0, len(vertices))"},
        ghost={"entry": "ipow_mono(4, 0, observed_length)\nssum_zero_iff(A(vertices), D(vertices), P(vertices, 0), P(vertices, len(vertices)))"},
        loops={1: dict(binds="range(int(len(nucleotides) ** observed_length))", invariant={
            "finished-rows": "forall(lambda u: forall(lambda j: accessor[u][j] == ite(vertices[u] != 0 and vertices[" + SUCC + "] != 0, " + SUCC + ", -1), 0, 4), 0, _i, "
                             "lambda u: accessor[u])",
            "untouched-rows": "forall(lambda u: forall(lambda j: accessor[u][j] == -1, 0, 4), _i, ipow(4, observed_length), lambda u: accessor[u])"})},
    ),
    # ------------------------------------------------------------------ C03 (thresholds 2..4: the whole function; threshold 1: see DESIGN)
    dict(name="dsw.spiderweb.connect_coding_graph", abstract=True,
         dispatch={"param": "threshold", "int": "dsw.spiderweb.connect_coding_graph#t234"}),
    dict(
        name="dsw.spiderweb.connect_coding_graph#t234", function="dsw.spiderweb.connect_coding_graph", variant_of="dsw.spiderweb.connect_coding_graph",
        n_loops=11, candidates={"observed_length": [1, 2]},
        params={"observed_length": "nat", "vertices": "nd_bits", "threshold": "nat", "verbose": "false"},
        split={"threshold": [2, 3, 4]},
        # S: an ARBITRARY closed subset of the mask (universally quantified ghost input): the result must contain it.
        # Closedness facts (v marked => enough marked successors) re-trigger themselves under E-matching, so they carry the explicit
        # instantiation marker here(v): proofs that need an instance walk over the vertices in a ghost loop and mark(v).
        ghost_params={"S": "nd_bits"},
        requires={"order": "observed_length >= 1", "mask-length": "len(vertices) == ipow(4, observed_length)",
                  "S-length": "len(S) == ipow(4, observed_length)"},
        # kept out of the queries until unstash(..): they are only needed where S is discussed
        stashed_requires={
                  "S-inside-mask": "forall(lambda v: implies(S[v] != 0, vertices[v] != 0), 0, ipow(4, observed_length))",
                  "S-closed": "forall(lambda v: implies(S[v] != 0, nsucc(S, v, observed_length) >= threshold), 0, ipow(4, observed_length), lambda v: here(v))"},
        returns="tuple(nd_bits,mat(ipow(4, observed_length), 4))",
        ensures={
            "description-length": "len(result[0]) == ipow(4, observed_length)",
            "inside-mask": "forall(lambda v: implies(result[0][v] != 0, vertices[v] != 0), 0, ipow(4, observed_length))",
            "closed": "forall(lambda v: implies(result[0][v] != 0, nsucc(result[0], v, observed_length) >= threshold), 0, ipow(4, observed_length), lambda v: here(v))",
            "contains-every-closed-subset": "forall(lambda v: implies(S[v] != 0, result[0][v] != 0), 0, ipow(4, observed_length))",
            "non-empty": "exists(lambda v: result[0][v] != 0, 0, ipow(4, observed_length))",
            "induced-accessor": "forall(lambda u: forall(lambda j: result[1][u][j] == ite(result[0][u] != 0 and result[0][succ(u, j, observed_length)] != 0, succ(u, j, observed_length), -1), 0, 4), "
                                "0, ipow(4, observed_length), lambda u: result[1][u])",
            "description-marks-vertices-with-arcs": "forall(lambda u: (result[0][u] != 0) == (result[1][u][0] >= 0 or result[1][u][1] >= 0 or result[1][u][2] >= 0 "
                                                    "or result[1][u][3] >= 0), 0, ipow(4, observed_length), lambda u: result[1][u])",
        },
        raises_only_when={"ValueError": "forall(lambda v: S[v] == 0, 0, ipow(4, observed_length))"},
        ghost={
            "entry": "ipow_mono(4, 0, observed_length)\nmask0 = vertices\nunstash('S-inside-mask')",
            "before_loop2": "stash('l1-inside-mask', forall(lambda v: implies(vertices[v] != 0, mask0[v] != 0), 0, ipow(4, observed_length)))\n"
                            "stash('l1-contains-S', forall(lambda v: implies(S[v] != 0, vertices[v] != 0), 0, ipow(4, observed_length)))\n"
                            "forget_eq('S-inside-mask')",
            "loop1_begin": "ssum_zero_iff(A(vertices), D(vertices), P(vertices, 0), P(vertices, len(vertices)))",
            "loop2_end": "assert new_vertices[vertex_index] == ite(nsucc(vertices, vertex_index, observed_length) >= threshold, 1, 0), 'this-entry'\n"
                         "assert vertices[vertex_index] != 0, 'entry-is-marked'",
            "after_loop2": "pv_ = 0\npr = 0\n"
                           "while pv_ < ipow(4, observed_length):\n"
                           "    if pr < len(saved_indices) and saved_indices[pr] == pv_:\n"
                           "        assert vertices[pv_] != 0 and new_vertices[pv_] == ite(nsucc(vertices, pv_, observed_length) >= threshold, 1, 0), 'listed-vertex'\n"
                           "        pr += 1\n"
                           "    else:\n"
                           "        assert vertices[pv_] == 0 and new_vertices[pv_] == 0, 'unlisted-vertex-is-unmarked'\n"
                           "    pv_ += 1\n"
                           "ssum_mono_eq(A(new_vertices), D(new_vertices), A(vertices), D(vertices), P(vertices, 0), P(vertices, len(vertices)))\n"
                           "ssum_zero_iff(A(new_vertices), D(new_vertices), P(new_vertices, 0), P(new_vertices, len(new_vertices)))\n"
                           "ssum_zero_iff(A(vertices), D(vertices), P(vertices, 0), P(vertices, len(vertices)))\n"
                           "unstash('l1-inside-mask')\nunstash('l1-contains-S')\nunstash('S-closed')\n"
                           "gv = 0\n"
                           "while gv < ipow(4, observed_length):\n"
                           "    mark(gv)\n"
                           "    assert implies(S[gv] != 0, new_vertices[gv] != 0), 'S-survives-this-round'\n"
                           "    gv += 1\n"
                           "forget_eq('S-closed')\n"
                           "if ssum(vertices, 0, len(vertices)) == ssum(new_vertices, 0, len(new_vertices)):\n"
                           "    cv = 0\n"
                           "    while cv < ipow(4, observed_length):\n"
                           "        assert implies(vertices[cv] != 0, nsucc(vertices, cv, observed_length) >= threshold), 'fixed-point-is-closed'\n"
                           "        cv += 1\n"
                           "    stash('closed', forall(lambda v: implies(vertices[v] != 0, nsucc(vertices, v, observed_length) >= threshold), 0, ipow(4, observed_length), lambda v: here(v)))",
            "before_loop3": "stash('inside-mask', forall(lambda v: implies(vertices[v] != 0, mask0[v] != 0), 0, ipow(4, observed_length)))\n"
                            "stash('contains-S', forall(lambda v: implies(S[v] != 0, vertices[v] != 0), 0, ipow(4, observed_length)))\n"
                            "cut(len(vertices) == ipow(4, observed_length), ipow(4, observed_length) >= 1,\n"
                            "    forall(lambda v: vertices[v] == 0 or vertices[v] == 1, 0, len(vertices)),\n"
                            "    exists(lambda v: vertices[v] != 0, 0, ipow(4, observed_length)),\n"
                            "    ipow(4, observed_length) == 4 * ipow(4, observed_length - 1), ipow(4, observed_length - 1) >= 1)",
            "after_loop3": "unstash('closed')\n"
                           "du = 0\n"
                           "while du < ipow(4, observed_length):\n"
                           "    mark(du)\n"
                           "    assert (vertices[du] != 0) == (accessor[du][0] >= 0 or accessor[du][1] >= 0 or accessor[du][2] >= 0 or accessor[du][3] >= 0), 'row-has-arcs-iff-marked'\n"
                           "    du += 1\n"
                           "unstash('inside-mask')\nunstash('contains-S')",
        },
        loops={
            1: dict(binds="True", invariant={
                "length": "len(vertices) == ipow(4, observed_length)",
                "bits": "forall(lambda v: vertices[v] == 0 or vertices[v] == 1, 0, len(vertices))",
                "inside-mask": "forall(lambda v: implies(vertices[v] != 0, mask0[v] != 0), 0, ipow(4, observed_length))",
                "contains-S": "forall(lambda v: implies(S[v] != 0, vertices[v] != 0), 0, ipow(4, observed_length))",
            }, variant="ssum(vertices, 0, len(vertices))"),
            2: dict(binds="enumerate(saved_indices)", invariant={
                "length": "len(new_vertices) == ipow(4, observed_length)",
                "processed-entries": "forall(lambda i: new_vertices[saved_indices[i]] == ite(nsucc(vertices, saved_indices[i], observed_length) >= threshold, 1, 0), "
                                     "0, _i, lambda i: saved_indices[i])",
                "only-marked-vertices-set": "forall(lambda v: implies(new_vertices[v] != 0, vertices[v] != 0) and (new_vertices[v] == 0 or new_vertices[v] == 1), "
                                            "0, len(vertices), lambda v: new_vertices[v])",
            }),
            # walk over ALL vertices with the rank r of v in saved_indices: new_vertices[v] = (v marked and >= t marked successors)
            "after_loop2#1": dict(invariant={
                "range": "0 <= pv_ <= ipow(4, observed_length) and 0 <= pr <= len(saved_indices)",
                "next-index-ahead": "implies(pr < len(saved_indices), saved_indices[pr] >= pv_)",
                "previous-index-behind": "implies(pr > 0, saved_indices[pr - 1] < pv_)",
                "processed": "forall(lambda v: new_vertices[v] == ite(vertices[v] != 0 and nsucc(vertices, v, observed_length) >= threshold, 1, 0), 0, pv_, lambda v: new_vertices[v])",
            }, variant="ipow(4, observed_length) - pv_"),
            "after_loop2#2": dict(invariant={"range": "0 <= gv <= ipow(4, observed_length)",
                                             "S-survives": "forall(lambda v: implies(S[v] != 0, new_vertices[v] != 0), 0, gv)"}, variant="ipow(4, observed_length) - gv"),
            "after_loop2#3": dict(invariant={"range": "0 <= cv <= ipow(4, observed_length)",
                                             "closed-so-far": "forall(lambda v: implies(vertices[v] != 0, nsucc(vertices, v, observed_length) >= threshold), 0, cv, "
                                                              "lambda v: here(v))"}, variant="ipow(4, observed_length) - cv"),
            3: dict(binds="range(int(len(nucleotides) ** observed_length))", invariant={
                "finished-rows": "forall(lambda u: forall_q(lambda j: accessor[u][j] == ite(vertices[u] != 0 and vertices[succ(u, j, observed_length)] != 0, succ(u, j, observed_length), -1), 0, 4), 0, _i)",
                "untouched-rows": "forall(lambda u: forall_q(lambda j: accessor[u][j] == -1, 0, 4), _i, ipow(4, observed_length))"}),
            "after_loop3#1": dict(invariant={"range": "0 <= du <= ipow(4, observed_length)",
                                             "rows-so-far": "forall(lambda u: (vertices[u] != 0) == (accessor[u][0] >= 0 or accessor[u][1] >= 0 or accessor[u][2] >= 0 "
                                                            "or accessor[u][3] >= 0), 0, du, lambda u: accessor[u])"}, variant="ipow(4, observed_length) - du"),
        },
    ),
    # ------------------------------------------------------------------ C07
    dict(
        name="dsw.spiderweb.set_vt", n_loops=0, lemmas=["pv_store_frame"],
        # refutation search: check lengths around the machine-word boundary 4^(n-1) = 2^63..64, not astronomically large ones (4 ** n is computed)
        candidates={"vt_length": [0, 1, 2, 3, 4, 5, 8, 13, 31, 32, 33, 34, 40, 64, 100]},
        params={"dna_sequence": "str", "vt_length": "nat"},
        requires={"check-length": "vt_length >= 1"},
        returns="str",
        ensures={
            "length": "len(result) == vt_length",
            "dna": "is_dna(result)",
            "first-symbol": "code(result[0]) == ssum(codes(dna_sequence), 0, len(dna_sequence)) % 4",
            "ascent-digits": "dnav(result, 1, vt_length) == ascents(dna_sequence) % ipow(4, vt_length - 1)",
        },
        raises={"ValueError": "not is_dna(dna_sequence)"},
        ghost={
            "entry": "ipow_mono(4, 0, vt_length - 1)",
            # sum(where(mask)[0]) == sum over the positions p with mask(p), by induction over p with the rank r of p in the index list
            "after_assign:vt_value": "idx = where((values[1:] - values[:-1]) > 0)[0]\n"
                                     "pairs = len(values[1:])\n"
                                     "ssum_zero_iff(A(values), D(values), P(values, 0), P(values, len(values)))\n"
                                     "p = 0\n"
                                     "r = 0\n"
                                     "while p < pairs:\n"
                                     "    if r < len(idx) and idx[r] == p:\n"
                                     "        r += 1\n"
                                     "    p += 1\n"
                                     "assert r == len(idx), 'all-indices-consumed'",
        },
        loops={"after_assign:vt_value#1": dict(invariant={
            "range": "0 <= p <= pairs and 0 <= r <= len(idx)",
            "next-index-ahead": "implies(r < len(idx), idx[r] >= p)",
            "previous-index-behind": "implies(r > 0, idx[r - 1] < p)",
            "partial-sum": "ssum(idx, 0, r) == ascents(dna_sequence, p)",
        }, variant="pairs - p")},
    ),
] + []

# ====================================================================================================== encode / decode (C01, C04, C05, C06)
N = "ipow(4, k)"
WF = {      # well-formed coding graph (statement of C01): from the start vertex every reachable vertex has an arc and reaches a branching vertex
    "graph": "k >= 1 and is_accessor(accessor, k)",
    "start": "start_index < " + N + " and R[start_index] != 0",
    "ghost-shapes": "len(R) == " + N + " and len(rank) == " + N,
    "reachable-closed": "forall(lambda v: implies(0 <= v and v < " + N + " and R[v] != 0, deg(accessor, v) >= 1 and rank[v] >= 0 and "
                        "forall(lambda j: implies(accessor[v][j] >= 0, R[accessor[v][j]] != 0 and (deg(accessor, v) > 1 or rank[accessor[v][j]] < rank[v])), 0, 4)), "
                        "0, " + N + ", lambda v: here(v))",
}


# case split on the live-arc pattern of the current vertex (16 paths, each with a concrete pattern)
LIVE_SPLIT = "".join("if accessor[vertex_index][%d] >= 0:\n    pass\n" % j for j in range(4))


def encode_variant(shuffled, with_check):
    name = "dsw.spiderweb.encode#normal" + ("-table" if shuffled else "") + ("-vt" if with_check else "")
    req = dict(WF)
    if shuffled:
        req["table"] = "is_table(shuffles, k)"
    if with_check:
        req["check-length"] = "vt_length >= 1"
    strand = "result[0]" if with_check else "result"
    ens = {
        "walk-length": "len(gq) == len(%s) + 1 and len(vtx) == len(%s) + 1" % (strand, strand),
        "starts-at-message-value": "gq[0] == val(binary_message, 0, len(binary_message), 2) and vtx[0] == start_index",
        "ends-at-zero": "gq[len(%s)] == 0" % strand,
        "published-scheme": "forall(lambda p: enc_step(accessor, shuffles, gq, vtx, %s, p), 0, len(%s), lambda p: %s[p])" % (strand, strand, strand),
    }
    if with_check:
        ens["check-length"] = "len(result[1]) == vt_length and is_dna(result[1])"
        ens["check-first-symbol"] = "code(result[1][0]) == ssum(codes(result[0]), 0, len(result[0])) % 4"
        ens["check-ascent-digits"] = "dnav(result[1], 1, vt_length) == ascents(result[0]) % ipow(4, vt_length - 1)"
    return dict(
        name=name, function="dsw.spiderweb.encode", variant_of="dsw.spiderweb.encode", n_loops=2,
        ghost_params={"k": "nat", "R": "nd_bits", "rank": "list_int"},
        params={"binary_message": "nd_bits", "accessor": "mat(ipow(4, k), 4)", "start_index": "nat", "is_faster": "false",
                "vt_length": "nat" if with_check else "const0", "shuffles": "mat(ipow(4, k), 4)" if shuffled else "none",
                "need_path": "false", "verbose": "false"},
        requires=req,
        returns="tuple(str,str)" if with_check else "str",
        ghost_returns={"gq": "list_int", "vtx": "list_int"},
        ensures=ens,
        raises={},
        ghost={
            "before_loop1": "gq = [dval(quotient)]\nvtx = [vertex_index]",
            "loop1_begin": "mark(vertex_index)\n" + LIVE_SPLIT +
                           "pv_positive(A(quotient), D(quotient), P(quotient, 0), P(quotient, len(quotient)), 10)",
            "loop1_end": "gq.append(dval(quotient))\nvtx.append(vertex_index)\n"
                         "pv_bound(A(quotient), D(quotient), P(quotient, 0), P(quotient, len(quotient)), 10)\n"
                         "assert enc_step(accessor, shuffles, gq, vtx, dna_sequence, len(dna_sequence) - 1), 'new-step-follows-the-scheme'",
        },
        loops={1: dict(binds="quotient != '0'", invariant={
            "lengths": "len(gq) == len(dna_sequence) + 1 and len(vtx) == len(dna_sequence) + 1",
            "heads": "gq[0] == val(binary_message, 0, len(binary_message), 2) and vtx[0] == start_index",
            "current": "gq[len(dna_sequence)] == dval(quotient) and canon(quotient) and vtx[len(dna_sequence)] == vertex_index",
            "on-reachable-vertex": "0 <= vertex_index and vertex_index < " + N + " and R[vertex_index] != 0",
            "published-scheme-so-far": "forall(lambda p: enc_step(accessor, shuffles, gq, vtx, dna_sequence, p), 0, len(dna_sequence), lambda p: dna_sequence[p])",
        }, variant="(dval(quotient), rank[vertex_index])")},
        lemmas=["pv_store_frame"],
    )


CONTRACTS = CONTRACTS + [
    dict(name="dsw.spiderweb.encode", abstract=True,
         dispatch={"params": ["is_faster", "shuffles", "vt_length"], "table": {
             "false|NoneV|zero": "dsw.spiderweb.encode#normal", "false|NoneV|int": "dsw.spiderweb.encode#normal-vt",
             "false|Mat|zero": "dsw.spiderweb.encode#normal-table", "false|Mat|int": "dsw.spiderweb.encode#normal-table-vt"}}),
    encode_variant(False, False), encode_variant(True, False), encode_variant(False, True), encode_variant(True, True),
]


# ------------------------------------------------------------------------------------------------------------------ decode (normal mode)
GRAPH = {"graph": "k >= 1 and is_accessor(accessor, k)", "start": "start_index < " + N}
DEAD = ("assert walkv(accessor, dna_sequence, start_index, _i + 1) < 0, 'this-prefix-is-not-a-walk'\n"
        "walk_dead(A2(accessor), A(dna_sequence), P(dna_sequence, 0), start_index, _i + 1, len(dna_sequence))")


def decode_variant(shuffled, with_check):
    name = "dsw.spiderweb.decode#normal" + ("-table" if shuffled else "") + ("-vt" if with_check else "")
    req = dict(GRAPH)
    if shuffled:
        req["table"] = "is_table(shuffles, k)"
    if with_check:
        req["check-length"] = "len(vt_check) >= 1"
    not_walk = "walkv(accessor, dna_sequence, start_index, len(dna_sequence)) < 0"
    rz = ("(not (is_dna(dna_sequence) and vt_matches(vt_check, dna_sequence))) or " + not_walk) if with_check else not_walk
    ghost = {
        "before_loop1": "dgp = []\nddp = []\nvtxd = [vertex_index]",
        "loop1_begin": "v0 = vertex_index\n" + LIVE_SPLIT,
        "loop1_end": "if deg(accessor, v0) > 1:\n"
                     "    assert first(saved_values)[len(saved_values) - 1] == deg(accessor, v0), 'radix-read'\n"
                     "    assert second(saved_values)[len(saved_values) - 1] == digit_of_arc(accessor, shuffles, v0, code(nucleotide)), 'digit-read'\n"
                     "dgp.append(deg(accessor, v0))\n"
                     "ddp.append(ite(deg(accessor, v0) > 1, digit_of_arc(accessor, shuffles, v0, code(nucleotide)), 0))\n"
                     "vtxd.append(vertex_index)\n"
                     "assert dec_step(accessor, shuffles, dgp, ddp, vtxd, dna_sequence, _i), 'this-step'",
        "before_raise2": DEAD, "before_raise3": DEAD, "before_raise4": DEAD,
        "after_loop1": "nsaved = len(saved_values)\nsvd = first(saved_values)\nsvg = second(saved_values)",
        "after_loop2": "hv_lv_dual(A(svd), A(svg), 0, nsaved)\n"
                       "pv_bound(A(quotient), D(quotient), P(quotient, 0), P(quotient, len(quotient)), 10)",
    }
    loops_extra = {}
    if with_check:
        # a supplied check that differs from set_vt(strand) cannot be 'the documented check' (uniqueness), and one that equals it is
        ghost["before_raise1"] = ("r = set_vt(dna_sequence, len(vt_check))\n"
                                  "if vt_matches(vt_check, dna_sequence):\n"
                                  "    pv_inj(A(codes(r)), 0, P(r, 1), A(codes(vt_check)), 0, P(vt_check, 1), len(vt_check) - 1, 4)\n"
                                  "    j = 0\n"
                                  "    while j < len(vt_check):\n"
                                  "        assert codes(r)[j] == codes(vt_check)[j]\n"
                                  "        j += 1\n"
                                  "    assert r == vt_check, 'the-documented-check-is-unique'\n")
        loops_extra["before_raise1#1"] = dict(invariant={
            "range": "0 <= j <= len(vt_check) and len(r) == len(vt_check)",
            "equal-so-far": "forall(lambda q: r[q] == vt_check[q], 0, j)"}, variant="len(vt_check) - j")
        ghost["before_loop1"] = ("r = set_vt(dna_sequence, len(vt_check))\n"
                                 "pv_ext(A(codes(vt_check)), 0, P(vt_check, 1), A(codes(r)), 0, P(r, 1), len(vt_check) - 1, 4)\n"
                                 "stash('check-matches', is_dna(dna_sequence) and vt_matches(vt_check, dna_sequence))\n"
                                 "cut()\n") + ghost["before_loop1"]
        ghost["before_return"] = "unstash('check-matches')"
    return dict(
        name=name, function="dsw.spiderweb.decode", variant_of="dsw.spiderweb.decode", n_loops=3,
        ghost_params={"k": "nat"},
        params={"dna_sequence": "str", "bit_length": "nat", "accessor": "mat(ipow(4, k), 4)", "start_index": "nat", "is_faster": "false",
                "vt_check": "str" if with_check else "none", "shuffles": "mat(ipow(4, k), 4)" if shuffled else "none", "verbose": "false"},
        requires=req,
        types={"saved_values": "list_pair"},
        returns="nd_bits",
        ghost_returns={"dgp": "list_int", "ddp": "list_int", "vtxd": "list_int"},
        ensures={
            "length": "len(result) == bit_length",
            "ghost-lengths": "len(dgp) == len(dna_sequence) and len(ddp) == len(dna_sequence) and len(vtxd) == len(dna_sequence) + 1 and vtxd[0] == start_index",
            "reads-the-walk": "forall(lambda p: dec_step(accessor, shuffles, dgp, ddp, vtxd, dna_sequence, p), 0, len(dna_sequence), lambda p: dna_sequence[p])",
            "value": "implies(lv(dgp, ddp, 0, len(dna_sequence)) < ipow(2, bit_length), "
                     "val(result, 0, bit_length, 2) == lv(dgp, ddp, 0, len(dna_sequence)))",
        },
        raises={"ValueError": rz},
        ghost=ghost,
        loops={
            1: dict(binds="enumerate(dna_sequence)", invariant={
                "walk-so-far": "vertex_index == walkv(accessor, dna_sequence, start_index, _i) and 0 <= vertex_index and vertex_index < " + N,
                "ghost-lengths": "len(dgp) == _i and len(ddp) == _i and len(vtxd) == _i + 1 and vtxd[0] == start_index and vtxd[_i] == vertex_index",
                "steps-so-far": "forall(lambda p: dec_step(accessor, shuffles, dgp, ddp, vtxd, dna_sequence, p), 0, _i, lambda p: dna_sequence[p])",
                "saved-ranges": "forall(lambda i: 2 <= first(saved_values)[i] and first(saved_values)[i] <= 4 and 0 <= second(saved_values)[i] and "
                                "second(saved_values)[i] < first(saved_values)[i], 0, len(saved_values))",
                "same-value": "lv(first(saved_values), second(saved_values), 0, len(saved_values)) == lv(dgp, ddp, 0, _i) and "
                              "wt(first(saved_values), 0, len(saved_values)) == wt(dgp, 0, _i)",
            }),
            2: dict(binds="enumerate(saved_values[::-1])", invariant={
                "canonical": "canon(quotient)",
                "horner": "dval(quotient) == hv(svd, svg, nsaved - _i, nsaved)",
            }),
            **loops_extra,
        },
        lemmas=["pv_store_frame", "wt_store_frame", "lv_store_frame"],
    )


CONTRACTS = CONTRACTS + [
    dict(name="dsw.spiderweb.decode", abstract=True,
         dispatch={"params": ["is_faster", "shuffles", "vt_check"], "table": {
             "false|NoneV|NoneV": "dsw.spiderweb.decode#normal", "false|Mat|NoneV": "dsw.spiderweb.decode#normal-table",
             "false|NoneV|str": "dsw.spiderweb.decode#normal-vt", "false|Mat|str": "dsw.spiderweb.decode#normal-table-vt"}}),
    decode_variant(False, False), decode_variant(True, False), decode_variant(False, True), decode_variant(True, True),
]


# ------------------------------------------------------------------------------------------------------------------ C18
def shuffles_variant(seeded):
    name = "dsw.spiderweb.create_random_shuffles#" + ("seed" if seeded else "noseed")
    ens = {
        "shape": "len(result) == ipow(4, observed_length) and len(result[0]) == 4",
        "permutation-rows": "is_table(result, observed_length)",
    }
    inv = {
        "done-rows-are-permutations": "forall(lambda v: 0 <= shuffles[v][0] <= 3 and 0 <= shuffles[v][1] <= 3 and 0 <= shuffles[v][2] <= 3 and 0 <= shuffles[v][3] <= 3 "
                                      "and shuffles[v][0] != shuffles[v][1] and shuffles[v][0] != shuffles[v][2] and shuffles[v][0] != shuffles[v][3] "
                                      "and shuffles[v][1] != shuffles[v][2] and shuffles[v][1] != shuffles[v][3] and shuffles[v][2] != shuffles[v][3], 0, _i)",
        "other-rows-untouched": "forall(lambda v: shuffles[v][0] == 0 and shuffles[v][1] == 1 and shuffles[v][2] == 2 and shuffles[v][3] == 3, _i, ipow(4, observed_length))",
    }
    if seeded:
        # reproducibility: the table is a function of (observed_length, seed) only - row i is the (i+1)-th shuffle after seed(seed)
        ens["same-seed-same-table"] = "forall(lambda v: row_is(result, v, shuffled_row(random_seed, v)), 0, ipow(4, observed_length))"
        inv["rows-are-the-seeded-shuffles"] = "forall(lambda v: row_is(shuffles, v, shuffled_row(random_seed, v)), 0, _i)"
        inv["generator-state"] = "rng_is(random_seed, _i)"
    return dict(
        name=name, function="dsw.spiderweb.create_random_shuffles", variant_of="dsw.spiderweb.create_random_shuffles", n_loops=1,
        candidates={"observed_length": [1, 2, 3], "random_seed": [0, 1, 7, 2021] if seeded else [None]},
        params={"observed_length": "nat", "random_seed": "nat" if seeded else "none", "verbose": "false"},
        requires={"order": "observed_length >= 1"},
        returns="mat(ipow(4, observed_length), 4)",
        ensures=ens, raises={},
        ghost={"entry": "ipow_mono(4, 0, observed_length)", "loop1_end": "rng_tick = 0"} if False else {"entry": "ipow_mono(4, 0, observed_length)"},
        loops={1: dict(binds="range(4 ** observed_length)", invariant=inv)},
        rng_invariant=seeded,
    )


CONTRACTS = CONTRACTS + [
    dict(name="dsw.spiderweb.create_random_shuffles", abstract=True,
         dispatch={"param": "random_seed", "int": "dsw.spiderweb.create_random_shuffles#seed", "zero": "dsw.spiderweb.create_random_shuffles#seed",
                   "NoneV": "dsw.spiderweb.create_random_shuffles#noseed"}),
    shuffles_variant(True), shuffles_variant(False),
]


# ------------------------------------------------------------------------------------------------------------------ encode (fast mode)
WF_FAST = dict(WF)
WF_FAST["reachable-closed"] = WF["reachable-closed"].replace("deg(accessor, v) >= 1 and rank[v] >= 0", "deg(accessor, v) >= 1 and deg(accessor, v) != 3 and rank[v] >= 0")


def encode_fast_variant(shuffled, with_check):
    name = "dsw.spiderweb.encode#fast" + ("-table" if shuffled else "") + ("-vt" if with_check else "")
    req = dict(WF_FAST)
    if shuffled:
        req["table"] = "is_table(shuffles, k)"
    if with_check:
        req["check-length"] = "vt_length >= 1"
    strand = "result[0]" if with_check else "result"
    ens = {
        "walk-length": "len(loc) == len(%s) + 1 and len(vtx) == len(%s) + 1" % (strand, strand),
        "starts": "loc[0] == 0 and vtx[0] == start_index",
        "carried-bits": "len(binary_message) <= loc[len(%s)] and loc[len(%s)] <= len(binary_message) + 1" % (strand, strand),
        "published-scheme": "forall(lambda p: fast_step(accessor, shuffles, binary_message, loc, vtx, %s, p), 0, len(%s), lambda p: %s[p])" % (strand, strand, strand),
    }
    if with_check:
        ens["check-length"] = "len(result[1]) == vt_length and is_dna(result[1])"
        ens["check-first-symbol"] = "code(result[1][0]) == ssum(codes(result[0]), 0, len(result[0])) % 4"
        ens["check-ascent-digits"] = "dnav(result[1], 1, vt_length) == ascents(result[0]) % ipow(4, vt_length - 1)"
    return dict(
        name=name, function="dsw.spiderweb.encode", variant_of="dsw.spiderweb.encode", n_loops=2,
        ghost_params={"k": "nat", "R": "nd_bits", "rank": "list_int"},
        params={"binary_message": "nd_bits", "accessor": "mat(ipow(4, k), 4)", "start_index": "nat", "is_faster": "true",
                "vt_length": "nat" if with_check else "const0", "shuffles": "mat(ipow(4, k), 4)" if shuffled else "none",
                "need_path": "false", "verbose": "false"},
        requires=req,
        returns="tuple(str,str)" if with_check else "str",
        ghost_returns={"loc": "list_int", "vtx": "list_int"},
        ensures=ens, raises={},
        ghost={
            "before_loop2": "loc = [location]\nvtx = [vertex_index]",
            "loop2_begin": "mark(vertex_index)\n" + LIVE_SPLIT,
            "loop2_end": "loc.append(location)\nvtx.append(vertex_index)\n"
                         "assert fast_step(accessor, shuffles, binary_message, loc, vtx, dna_sequence, len(dna_sequence) - 1), 'new-step-follows-the-scheme'",
        },
        loops={2: dict(binds="location < len(binary_message)", invariant={
            "lengths": "len(loc) == len(dna_sequence) + 1 and len(vtx) == len(dna_sequence) + 1",
            "heads": "loc[0] == 0 and vtx[0] == start_index",
            "current": "loc[len(dna_sequence)] == location and vtx[len(dna_sequence)] == vertex_index and 0 <= location and location <= len(binary_message) + 1",
            "on-reachable-vertex": "0 <= vertex_index and vertex_index < " + N + " and R[vertex_index] != 0",
            "published-scheme-so-far": "forall(lambda p: fast_step(accessor, shuffles, binary_message, loc, vtx, dna_sequence, p), 0, len(dna_sequence), "
                                       "lambda p: dna_sequence[p])",
        }, variant="(len(binary_message) + 1 - location, rank[vertex_index])")},
        lemmas=["pv_store_frame"],
    )


_enc = next(c for c in CONTRACTS if c["name"] == "dsw.spiderweb.encode")
_enc["dispatch"]["table"].update({
    "true|NoneV|zero": "dsw.spiderweb.encode#fast", "true|NoneV|int": "dsw.spiderweb.encode#fast-vt",
    "true|Mat|zero": "dsw.spiderweb.encode#fast-table", "true|Mat|int": "dsw.spiderweb.encode#fast-table-vt"})
CONTRACTS = CONTRACTS + [encode_fast_variant(False, False), encode_fast_variant(True, False), encode_fast_variant(False, True), encode_fast_variant(True, True)]


# ------------------------------------------------------------------------------------------------------------------ decode (fast mode)
DEAD_F = DEAD


def decode_fast_variant(shuffled, with_check):
    name = "dsw.spiderweb.decode#fast" + ("-table" if shuffled else "") + ("-vt" if with_check else "")
    req = dict(GRAPH)
    req["no-out-degree-3"] = "forall(lambda v: deg(accessor, v) != 3, 0, " + N + ", lambda v: here(v))"
    # the precondition the statement gives: the walkable prefix never needs a bit cell beyond the requested length
    req["room"] = ("forall(lambda p: implies(walkv(accessor, dna_sequence, start_index, p + 1) >= 0 and "
                   "deg(accessor, walkv(accessor, dna_sequence, start_index, p)) >= 2, floc(accessor, dna_sequence, start_index, p) < bit_length), "
                   "0, len(dna_sequence), lambda p: here(p))")
    if shuffled:
        req["table"] = "is_table(shuffles, k)"
    if with_check:
        req["check-length"] = "len(vt_check) >= 1"
    not_walk = "walkv(accessor, dna_sequence, start_index, len(dna_sequence)) < 0"
    rz = ("(not (is_dna(dna_sequence) and vt_matches(vt_check, dna_sequence))) or " + not_walk) if with_check else not_walk
    ghost = {
        "before_loop3": "dgp = []\nddp = []\nvtxd = [vertex_index]\nlocd = [message_location]",
        "loop3_begin": "v0 = vertex_index\nmark(vertex_index)\nmark(_i)\nmark(walkv(accessor, dna_sequence, start_index, _i + 1))\n" + LIVE_SPLIT,
        "loop3_end": "dgp.append(deg(accessor, v0))\n"
                     "ddp.append(ite(deg(accessor, v0) > 1, digit_of_arc(accessor, shuffles, v0, code(nucleotide)), 0))\n"
                     "vtxd.append(vertex_index)\nlocd.append(message_location)\n"
                     "assert dec_step(accessor, shuffles, dgp, ddp, vtxd, dna_sequence, _i), 'this-step'\n"
                     "assert fast_cells(binary_message, dgp, ddp, locd, _i), 'cells-of-this-step'",
        "before_raise5": DEAD_F,
    }
    loops_extra = {}
    if with_check:
        ghost["before_raise1"] = ("r = set_vt(dna_sequence, len(vt_check))\n"
                                  "if vt_matches(vt_check, dna_sequence):\n"
                                  "    pv_inj(A(codes(r)), 0, P(r, 1), A(codes(vt_check)), 0, P(vt_check, 1), len(vt_check) - 1, 4)\n"
                                  "    j = 0\n"
                                  "    while j < len(vt_check):\n"
                                  "        assert codes(r)[j] == codes(vt_check)[j]\n"
                                  "        j += 1\n"
                                  "    assert r == vt_check, 'the-documented-check-is-unique'\n")
        loops_extra["before_raise1#1"] = dict(invariant={
            "range": "0 <= j <= len(vt_check) and len(r) == len(vt_check)",
            "equal-so-far": "forall(lambda q: r[q] == vt_check[q], 0, j)"}, variant="len(vt_check) - j")
        ghost["before_loop3"] = ("r = set_vt(dna_sequence, len(vt_check))\n"
                                 "pv_ext(A(codes(vt_check)), 0, P(vt_check, 1), A(codes(r)), 0, P(r, 1), len(vt_check) - 1, 4)\n"
                                 "stash('check-matches', is_dna(dna_sequence) and vt_matches(vt_check, dna_sequence))\n"
                                 "cut()\n") + ghost["before_loop3"]
        ghost["before_return"] = "unstash('check-matches')"
    return dict(
        name=name, function="dsw.spiderweb.decode", variant_of="dsw.spiderweb.decode", n_loops=3,
        ghost_params={"k": "nat"},
        params={"dna_sequence": "str", "bit_length": "nat", "accessor": "mat(ipow(4, k), 4)", "start_index": "nat", "is_faster": "true",
                "vt_check": "str" if with_check else "none", "shuffles": "mat(ipow(4, k), 4)" if shuffled else "none", "verbose": "false"},
        requires=req,
        returns="nd_int",
        ghost_returns={"dgp": "list_int", "ddp": "list_int", "vtxd": "list_int", "locd": "list_int"},
        ensures={
            "length": "len(result) == bit_length",
            "ghost-lengths": "len(dgp) == len(dna_sequence) and len(ddp) == len(dna_sequence) and len(vtxd) == len(dna_sequence) + 1 and "
                             "len(locd) == len(dna_sequence) + 1 and vtxd[0] == start_index and locd[0] == 0",
            "reads-the-walk": "forall(lambda p: dec_step(accessor, shuffles, dgp, ddp, vtxd, dna_sequence, p), 0, len(dna_sequence), lambda p: dna_sequence[p])",
            "bit-cells": "forall(lambda p: fast_cells(result, dgp, ddp, locd, p), 0, len(dna_sequence), lambda p: dgp[p])",
            "untouched-cells-are-zero": "forall(lambda c: result[c] == 0, locd[len(dna_sequence)], bit_length)",
        },
        raises={"ValueError": rz},
        ghost=ghost,
        loops={
            3: dict(binds="enumerate(dna_sequence)", invariant={
                "walk-so-far": "vertex_index == walkv(accessor, dna_sequence, start_index, _i) and 0 <= vertex_index and vertex_index < " + N,
                "cursor": "message_location == floc(accessor, dna_sequence, start_index, _i) and 0 <= message_location and len(binary_message) == bit_length",
                "ghost-lengths": "len(dgp) == _i and len(ddp) == _i and len(vtxd) == _i + 1 and len(locd) == _i + 1 and vtxd[0] == start_index and "
                                 "locd[0] == 0 and vtxd[_i] == vertex_index and locd[_i] == message_location",
                "steps-so-far": "forall(lambda p: dec_step(accessor, shuffles, dgp, ddp, vtxd, dna_sequence, p), 0, _i, lambda p: dna_sequence[p])",
                "cells-so-far": "forall(lambda p: fast_cells(binary_message, dgp, ddp, locd, p), 0, _i, lambda p: dgp[p])",
                "cursor-monotone": "forall(lambda p: locd[p] <= locd[p + 1] and locd[p + 1] <= message_location, 0, _i, lambda p: locd[p])",
                "untouched-cells-are-zero": "forall(lambda c: binary_message[c] == 0, message_location, bit_length)",
            }),
            **loops_extra,
        },
        lemmas=["pv_store_frame"],
    )


_dec = next(c for c in CONTRACTS if c["name"] == "dsw.spiderweb.decode")
_dec["dispatch"]["table"].update({
    "true|NoneV|NoneV": "dsw.spiderweb.decode#fast", "true|Mat|NoneV": "dsw.spiderweb.decode#fast-table",
    "true|NoneV|str": "dsw.spiderweb.decode#fast-vt", "true|Mat|str": "dsw.spiderweb.decode#fast-table-vt"})
CONTRACTS = CONTRACTS + [decode_fast_variant(False, False), decode_fast_variant(True, False), decode_fast_variant(False, True), decode_fast_variant(True, True)]


# ------------------------------------------------------------------------------------------------------------------ C10: the scan loop of repair_dna
CONTRACTS = CONTRACTS + [dict(
    name="dsw.spiderweb.repair_dna#scan", function="dsw.spiderweb.repair_dna", variant_of="dsw.spiderweb.repair_dna", n_loops=7,
    # PARTIAL contract: the obligations end with the scan loop (loop 1).  The three bookkeeping lists (lists of strings / of arrays) are length-only
    # lists (`list_counted`): every statement of the loop is executed, `split_sequences[-1]` needs a non-empty list (an IndexError obligation), the
    # expressions appended are evaluated with their own obligations; the elements themselves are not tracked.
    stop_after_loop=1, types={"split_sequences": "list_counted", "chuck_sequences": "list_counted", "index_markers": "list_counted"},
    params={"dna_sequence": "dna", "accessor": "mat(ipow(4, observed_length), 4)", "start_index": "nat", "observed_length": "nat",
            "vt_check": "none", "has_indel": "bool", "heap_size": "nat"},
    requires={"graph": "observed_length >= 1 and is_accessor(accessor, observed_length)", "start": "start_index < ipow(4, observed_length)",
              "one-window": "len(dna_sequence) >= observed_length"},
    returns="none",
    # what the later phases rely on: one chunk and one look-back marker per detected error, one more segment than errors
    ensures={"lists-in-step": "len(split_sequences) == detected_count + 1 and len(chuck_sequences) == detected_count and len(index_markers) == detected_count"},
    raises={},
    ghost={"entry": "ipow_mono(4, 0, observed_length)",
           "after_assign:vertex_index": "sl = dna_sequence[location + 1: location + observed_length + 1]\n"
                                        "pv_bound(A(codes(sl)), 0, P(sl, 0), P(sl, len(sl)), 4)\n"
                                        "ipow_mono(4, len(sl), observed_length)"},
    loops={1: dict(binds="location < len(dna_sequence)", invariant={
        "cursor": "0 <= location and detected_count >= 0",
        "vertex-in-range": "0 <= vertex_index and vertex_index < ipow(4, observed_length)",
        "queue-length": "len(index_queue) == len(dna_sequence)",
        "lists-in-step": "len(split_sequences) == detected_count + 1 and len(chuck_sequences) == detected_count and len(index_markers) == detected_count",
    }, variant="len(dna_sequence) - location")},
)]


# ------------------------------------------------------------------------------------------------------------------ C19: remove_nasty_arc
ROW_SPLIT = "".join("if accessor[former][%d] >= 0:\n    pass\n" % j for j in range(4))
CONTRACTS = CONTRACTS + [dict(
    name="dsw.spiderweb.remove_nasty_arc", n_loops=0,
    ghost_params={"k": "nat"},
    params={"accessor": "mat(ipow(4, k), 4)", "latter_map": "dict", "iteration": "nat", "has_insertion": "bool", "has_deletion": "bool", "verbose": "false"},
    # the two views describe the same graph at entry (the invariant of every history of calls: established by accessor_to_latter_map, C14)
    requires={"graph": "k >= 1 and k <= 31 and is_accessor(accessor, k)", "views-agree": "lm_of(latter_map, accessor, k)"},
    returns="tuple", ghost_returns={"sc0": "mat(ipow(4, k), 4)"},
    # the statistics computed after the update (reshape / boolean selection / Counter / argsort of the score table) are outside the modelled subset:
    # `scores` and `score_record` become opaque there; exceptions those statements raise end the call and are not covered.
    opaque_tail=("scores", "score_record"),
    ensures={
        # result = (accessor, latter_map, (former, latter), scores): the first two are the objects passed in, updated in place (frame analysis, C20)
        "removed-arc-existed": "0 <= result[2][0] and result[2][0] < ipow(4, k) and result[2][1] >= 0 and "
                               "accessor[result[2][0]][result[2][1] % 4] == result[2][1] and result[0][result[2][0]][result[2][1] % 4] == -1",
        "no-other-entry-changes": "forall(lambda v: forall(lambda j: implies(not (v == result[2][0] and j == result[2][1] % 4), "
                                  "result[0][v][j] == accessor[v][j]), 0, 4), 0, ipow(4, k), lambda v: result[0][v])",
        "removed-arc-has-the-maximum-score": "forall(lambda v: forall(lambda j: sc0[v][j] <= sc0[result[2][0]][result[2][1] % 4], 0, 4), 0, ipow(4, k), "
                                             "lambda v: sc0[v])",
        # ... and that table is the score table of the graph before the call under the caller's own flags
        "scores-are-those-of-the-call": "forall(lambda v: forall(lambda j: sc0[v][j] == iscore(latter_map, k, has_insertion, has_deletion, v, j), 0, 4), "
                                        "0, ipow(4, k), lambda v: sc0[v])",
        "views-still-agree": "lm_of(result[1], result[0], k)",
    },
    raises={"IndexError": None, "ValueError": None},
    modifies=["accessor", "latter_map"],
    # refutation: the real function on small graphs with both views in step (the ghost order k is part of each input)
    concrete_inputs="[dict(k=k_, accessor=a_, latter_map=accessor_to_latter_map(a_), iteration=0, has_insertion=i_, has_deletion=d_, verbose=False) "
                    "for k_ in (1, 2) for a_ in small_accessors(k_) for i_ in (True, False) for d_ in (True, False)]",
    ghost={"entry": "ipow_mono(4, 0, k)",
           "after_assign:vertex_indices": "sc0 = scores",
           "after_assign:former": "mark(former)",
           "after_assign:latter": "acc_h = accessor\nlm_h = latter_map\n"
                                  "ipow_mono(4, 0, k - 1)\n"
                                  "assert ipow(4, k) == 4 * ipow(4, k - 1), 'pow-step'\n"
                                  "assert 0 <= former and former < ipow(4, k) and deg(accessor, former) >= 1, 'former-has-arcs'\n"
                                  "assert 0 <= latter_value and latter_value <= 3, 'column'\n"
                                  "assert forall(lambda v: forall(lambda j: sc0[v][j] <= sc0[former][latter_value], 0, 4), 0, ipow(4, k), lambda v: sc0[v]), "
                                  "'row-maximum-is-the-global-maximum'\n"
                                  "if former < ipow(4, k - 1):\n    shift_append(former, latter_value, ipow(4, k - 1), 0)\n"
                                  "elif former < 2 * ipow(4, k - 1):\n    shift_append(former, latter_value, ipow(4, k - 1), 1)\n"
                                  "elif former < 3 * ipow(4, k - 1):\n    shift_append(former, latter_value, ipow(4, k - 1), 2)\n"
                                  "else:\n    shift_append(former, latter_value, ipow(4, k - 1), 3)\n"
                                  "assert latter == (former % ipow(4, k - 1)) * 4 + latter_value, 'latter-shift-append'\n"
                                  "assert latter == succ(former, latter_value, k), 'latter-is-the-shift-successor'\n"
                                  "assert latter >= 0 and latter % 4 == latter_value, 'latter-column'\n"
                                  # only what the update needs survives (the quantified library facts about where / unique / intersect1d / max are heavy)
                                  "cut(k >= 1 and k <= 31, is_accessor(accessor, k), lm_of(latter_map, accessor, k), len(accessor) == ipow(4, k),\n"
                                  "    forall(lambda v: forall(lambda j: sc0[v][j] <= sc0[former][latter_value], 0, 4), 0, ipow(4, k), lambda v: sc0[v]),\n"
                                  "    forall(lambda v: forall(lambda j: sc0[v][j] == iscore(lm_h, k, has_insertion, has_deletion, v, j), 0, 4), 0, ipow(4, k), lambda v: sc0[v]),\n"
                                  "    0 <= former and former < ipow(4, k) and deg(accessor, former) >= 1 and 0 <= latter_value and latter_value <= 3,\n"
                                  "    latter == succ(former, latter_value, k) and latter >= 0 and latter % 4 == latter_value,\n"
                                  "    latter == (former % ipow(4, k - 1)) * 4 + latter_value, ipow(4, k) == 4 * ipow(4, k - 1), ipow(4, k - 1) >= 1,\n"
                                  "    forall(lambda v: forall(lambda j: acc_h[v][j] == accessor[v][j], 0, 4), 0, ipow(4, k), lambda v: acc_h[v]))",
           "before_return": "assert acc_h[former][latter_value] == latter, 'the-removed-entry-was-that-arc'"},
)]


# ------------------------------------------------------------------------------------------------------------------ C09: repair_dna on a clean strand
def repair_clean_variant(with_check):
    name = "dsw.spiderweb.repair_dna#clean" + ("-vt" if with_check else "")
    req = {"graph": "observed_length >= 1 and is_accessor(accessor, observed_length)", "start": "start_index < ipow(4, observed_length)",
           "one-window": "len(dna_sequence) >= observed_length",
           "clean": "walkv(accessor, dna_sequence, start_index, len(dna_sequence)) >= 0"}
    if with_check:
        req["check-length"] = "len(vt_check) >= 1"
        ens = {"the-strand-or-nothing": "ite(vt_matches(vt_check, dna_sequence), len(result[0]) == 1 and result[0][0] == dna_sequence, len(result[0]) == 0)",
               "no-error-detected": "result[1][0] == 0"}
    else:
        ens = {"exactly-the-strand": "len(result[0]) == 1 and result[0][0] == dna_sequence", "no-error-detected": "result[1][0] == 0"}
    ghost = {
        "entry": "ipow_mono(4, 0, observed_length)",
        "loop1_begin": "if walkv(accessor, dna_sequence, start_index, location + 1) < 0:\n"
                       "    walk_dead(A2(accessor), A(dna_sequence), P(dna_sequence, 0), start_index, location + 1, len(dna_sequence))\n"
                       "assert walkv(accessor, dna_sequence, start_index, location + 1) >= 0, 'next-prefix-is-a-walk'\n"
                       "mark(code(dna_sequence[location]))\n" + LIVE_SPLIT,
    }
    if with_check:
        uniq = ("r = set_vt(dna_sequence, len(vt_check))\n"
                "if vt_matches(vt_check, dna_sequence):\n"
                "    pv_inj(A(codes(r)), 0, P(r, 1), A(codes(vt_check)), 0, P(vt_check, 1), len(vt_check) - 1, 4)\n"
                "    j = 0\n"
                "    while j < len(vt_check):\n"
                "        assert codes(r)[j] == codes(vt_check)[j]\n"
                "        j += 1\n"
                "    assert r == vt_check, 'the-documented-check-is-unique'\n"
                "else:\n"
                "    if r == vt_check:\n"
                "        pv_ext(A(codes(vt_check)), 0, P(vt_check, 1), A(codes(r)), 0, P(r, 1), len(vt_check) - 1, 4)\n"
                "        assert vt_matches(vt_check, dna_sequence), 'a-check-equal-to-the-documented-one-matches'\n")
        ghost["after_loop1"] = "same_string(split_sequences, 0, dna_sequence)\n" + uniq
    else:
        ghost["after_loop1"] = "same_string(split_sequences, 0, dna_sequence)"
    loops = {1: dict(binds="location < len(dna_sequence)", invariant={
        "cursor": "0 <= location and location <= len(dna_sequence)",
        "on-the-walk": "vertex_index == walkv(accessor, dna_sequence, start_index, location) and 0 <= vertex_index and vertex_index < ipow(4, observed_length)",
        "no-error-so-far": "detected_count == 0",
        "one-segment": "len(split_sequences) == 1 and len(chuck_sequences) == 0 and len(index_markers) == 0",
        "segment-is-the-prefix": "len(split_sequences[0]) == location and forall(lambda q: split_sequences[0][q] == dna_sequence[q], 0, location)",
        "queue-length": "len(index_queue) == len(dna_sequence)",
    }, variant="len(dna_sequence) - location")}
    if with_check:
        loops["after_loop1#1"] = dict(invariant={"range": "0 <= j <= len(vt_check) and len(r) == len(vt_check)",
                                                 "equal-so-far": "forall(lambda q: r[q] == vt_check[q], 0, j)"}, variant="len(vt_check) - j")
    return dict(
        name=name, function="dsw.spiderweb.repair_dna", variant_of="dsw.spiderweb.repair_dna", n_loops=7,
        params={"dna_sequence": "dna", "accessor": "mat(ipow(4, observed_length), 4)", "start_index": "nat", "observed_length": "nat",
                "vt_check": "str" if with_check else "none", "has_indel": "bool", "heap_size": "nat"},
        requires=req, returns="tuple", ensures=ens, raises={}, ghost=ghost, loops=loops, lemmas=["pv_store_frame"] if with_check else [],
        types={"chuck_sequences": "list_obj", "index_markers": "list_obj"},
        concrete_inputs="[dict(dna_sequence=w_, accessor=a_, start_index=s_, observed_length=k_, vt_check=c_, has_indel=h_, heap_size=hs_) "
                        "for k_ in (1, 2) for (a_, s_, w_) in walk_cases(k_) for h_ in (False, True) for hs_ in (0, 1000) "
                        "for c_ in " + ("(vt_spec(w_, 3), vt_spec(w_, 1), 'ACG', 'T')" if with_check else "(None,)") + "]",
    )


CONTRACTS = CONTRACTS + [repair_clean_variant(False), repair_clean_variant(True)]


# ------------------------------------------------------------------------------------------------------------------ C09: the candidate list of repair_dna, any input
def repair_candidates_variant(with_check):
    name = "dsw.spiderweb.repair_dna#candidates" + ("-vt" if with_check else "")
    opaque_locals = ["nucleotides", "location", "vertex_index", "index_queue", "split_sequences", "chuck_sequences", "index_markers", "used_indices", "nucleotide",
                     "repaired_fragment_set", "used_index", "index", "chuck_sequence", "index_marker", "recall", "record", "times", "fragment", "_"]
    locals_ = {n_: "opaque" for n_ in opaque_locals}
    locals_.update({"detected_count": "int", "chuck_flag": "bool", "visited_times": "int"})
    inv = "isnone(vt_check) or vt_check == set_vt(candidate, len(vt_check))"
    return dict(
        name=name, function="dsw.spiderweb.repair_dna", variant_of="dsw.spiderweb.repair_dna", n_loops=7,
        # PARTIAL contract: everything before the candidate product (scan loop, look-back, path matching) is skipped; its results are arbitrary values
        # (start_at).  The three remaining loops run over those arbitrary collections (havoc_loops).  What is proved holds for every such value:
        # whatever the earlier phases computed, the list handed back is sorted, duplicate-free and - when a check is supplied - check-consistent.
        start_at={"assign": "repaired_results", "locals": locals_},
        havoc_loops=(5, 6, 7),
        types={"repaired_dna_sequence": "str", "count": "int", "chuck_flag": "bool"},
        collections={"repaired_results": inv},
        params={"dna_sequence": "str", "accessor": "mat(ipow(4, observed_length), 4)", "start_index": "nat", "observed_length": "nat",
                "vt_check": "str" if with_check else "none", "has_indel": "bool", "heap_size": "nat"},
        requires={"order": "observed_length >= 1"} if not with_check else {"order": "observed_length >= 1", "check-length": "len(vt_check) >= 1"},
        returns="tuple",
        ensures={"sorted-and-duplicate-free": "sorted_unique(result[0])",
                 "every-candidate-reproduces-the-check": "candidates_ok(result[0], 'repaired_results')"},
        raises={"ValueError": None},          # set_vt of a candidate that is not over A, C, G, T (the clause is about calls that return)
        concrete_inputs="[dict(dna_sequence=b_, accessor=a_, start_index=s_, observed_length=k_, vt_check=c_, has_indel=h_, heap_size=hs_) "
                        "for k_ in (1, 2) for (a_, s_, b_, w_) in corrupted_cases(k_) for h_ in (False, True) for hs_ in (0, 2, 1000) "
                        "for c_ in " + ("(vt_spec(w_, 3), vt_spec(b_, 2), 'T')" if with_check else "(None,)") + "]",
    )


CONTRACTS = CONTRACTS + [repair_candidates_variant(False), repair_candidates_variant(True)]


# ------------------------------------------------------------------------------------------------------------------ C08: detection = the strand is not a walk
CONTRACTS = CONTRACTS + [dict(
    name="dsw.spiderweb.repair_dna#detect", function="dsw.spiderweb.repair_dna", variant_of="dsw.spiderweb.repair_dna", n_loops=7,
    # PARTIAL contract ending with the scan loop (as #scan): an error is detected (the scan loop's counter leaves 0) exactly when the strand is not a walk
    # of the graph from the start vertex - for every strand, not only singly edited ones.
    stop_after_loop=1, types={"split_sequences": "list_counted", "chuck_sequences": "list_counted", "index_markers": "list_counted"},
    params={"dna_sequence": "dna", "accessor": "mat(ipow(4, observed_length), 4)", "start_index": "nat", "observed_length": "nat",
            "vt_check": "none", "has_indel": "bool", "heap_size": "nat"},
    requires={"graph": "observed_length >= 1 and is_accessor(accessor, observed_length)", "start": "start_index < ipow(4, observed_length)",
              "one-window": "len(dna_sequence) >= observed_length"},
    returns="none",
    ensures={"detected-exactly-when-not-a-walk": "(detected_count == 0) == (walkv(accessor, dna_sequence, start_index, len(dna_sequence)) >= 0)"},
    raises={},
    ghost={"entry": "ipow_mono(4, 0, observed_length)",
           "loop1_begin": "mark(code(dna_sequence[location]))\n" + LIVE_SPLIT +
                          "if detected_count == 0:\n"
                          "    if walkv(accessor, dna_sequence, start_index, location + 1) < 0:\n"
                          "        walk_dead(A2(accessor), A(dna_sequence), P(dna_sequence, 0), start_index, location + 1, len(dna_sequence))\n",
           "after_assign:vertex_index": "sl = dna_sequence[location + 1: location + observed_length + 1]\n"
                                        "pv_bound(A(codes(sl)), 0, P(sl, 0), P(sl, len(sl)), 4)\n"
                                        "ipow_mono(4, len(sl), observed_length)"},
    loops={1: dict(binds="location < len(dna_sequence)", invariant={
        "cursor": "0 <= location and detected_count >= 0",
        "vertex-in-range": "0 <= vertex_index and vertex_index < ipow(4, observed_length)",
        "queue-length": "len(index_queue) == len(dna_sequence)",
        "clean-so-far": "implies(detected_count == 0, location <= len(dna_sequence) and vertex_index == walkv(accessor, dna_sequence, start_index, location))",
        "dirty-for-good": "implies(detected_count != 0, walkv(accessor, dna_sequence, start_index, len(dna_sequence)) < 0)",
        "one-segment-at-least": "len(split_sequences) >= 1",
    }, variant="len(dna_sequence) - location")},
)]
