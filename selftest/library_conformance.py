"""Conformance of the TRUSTED library contracts (pyvc/library.py, DESIGN.md section 3) against the real numpy / Python on enumerated small arguments.
Run under /venv/bin/python by the thorough tier; a mismatch is a checker error (exit 3), never a property violation.  Prints one JSON line."""
import itertools
import json
import random
import sys

import numpy
from numpy import array, zeros, ones, where, argsort, sum as nsum

checks = 0
bad = []


def ok(cond, what):
    global checks
    checks += 1
    if not cond:
        bad.append(what)


# where(mask)[0]: strictly increasing, exactly the positions where the mask holds
for n in range(0, 7):
    for bits in itertools.product((0, 1, 2), repeat=n):
        a = array(bits, dtype=int)
        idx = where(a != 0)[0]
        ok(list(idx) == [i for i in range(n) if bits[i] != 0], f"where {bits}")
        ok(list(where((a[1:] - a[:-1]) > 0)[0]) == [i for i in range(n - 1) if bits[i + 1] - bits[i] > 0], f"where-diff {bits}")
# argsort of <= 4 distinct values: out[rank(i)] = i
for n in range(1, 5):
    for vals in itertools.permutations(range(6), n):
        out = argsort(array(vals))
        ok(all(out[sorted(vals).index(v)] == i for i, v in enumerate(vals)), f"argsort {vals}")
# array dtype: array([]) is float64 (an index of that dtype raises TypeError); with dtype=int it is integer
ok(array([]).dtype == numpy.float64 and array([], dtype=int).dtype.kind == "i" and array([1, 2]).dtype.kind == "i", "array dtype")
try:
    "ACGT"[nsum(array([])) % 4]
    ok(False, "float index accepted")
except TypeError:
    ok(True, "float index raises TypeError")
ok("ACGT"[nsum(array([], dtype=int)) % 4] == "A", "int64 index into str")
# zeros / ones / -ones ; shape and dtype
m = -ones(shape=(16, 4), dtype=int)
ok(m.shape == (16, 4) and (m == -1).all() and m.dtype.kind == "i", "-ones")
z = zeros(shape=(5,), dtype=bool)
ok(z.shape == (5,) and not z.any() and z.dtype == bool, "zeros bool")
# basic indexing is a view (writes through), fancy / boolean-mask indexing and tolist() are copies
m = zeros(shape=(4, 4), dtype=int)
row = m[2]
row[1] = 7
ok(m[2][1] == 7, "row view writes through")
m[1][3] = 5
ok(m[1, 3] == 5, "chained store")
c = m[2][[1, 2]]
c[0] = 9
ok(m[2][1] == 7, "fancy index is a copy")
b = m[2][m[2] >= 0]
b[0] = 11
ok(m[2][0] == 0, "boolean-mask index is a copy")
m[:, 1] = 3
ok(all(m[r][1] == 3 for r in range(4)), "column assignment")
m[0] = [4, 5, 6, 7]
ok(list(m[0]) == [4, 5, 6, 7], "row assignment")
m[3] = -1
ok(list(m[3]) == [-1, -1, -1, -1], "row assignment of a scalar")
# (a + 1).astype(bool), sum(axis=1), boolean-mask select keeps order
rnd = random.Random(7)
for _ in range(300):
    a = array([[rnd.choice((-1, 0, 3, 9)) for _ in range(4)] for _ in range(5)])
    ok(list(nsum((a + 1).astype(bool), axis=1)) == [sum(1 for x in r if x != -1) for r in a.tolist()], "row sums")
    r = a[rnd.randrange(5)]
    ok(r[r >= 0].tolist() == [x for x in r.tolist() if x >= 0], "mask select")
    v = array([rnd.randint(0, 1) for _ in range(12)])
    idx = [rnd.randrange(12) for _ in range(4)]
    ok(int(nsum(v[idx])) == sum(int(v[i]) for i in idx), "fancy sum")
# the global generator is a deterministic state machine; shuffle permutes in place through a row view
for seed in (0, 1, 7, 2021):
    numpy.random.seed(seed)
    t1 = []
    for _ in range(6):
        card = array([0, 1, 2, 3])
        numpy.random.shuffle(card)
        t1.append(card.tolist())
    numpy.random.seed(seed)
    tab = zeros(shape=(6, 4), dtype=int)
    tab[:, 1], tab[:, 2], tab[:, 3] = 1, 2, 3
    for i in range(6):
        card = tab[i]
        numpy.random.shuffle(card)
        tab[i] = card
    ok(tab.tolist() == t1 and all(sorted(r) == [0, 1, 2, 3] for r in t1), f"seeded shuffle {seed}")
# str: single-character replace, upper, reverse, count, zfill, in
for s in ("", "A", "ACGT", "GATTACA", "acgtN", "AAACCC"):
    ok(s.replace("A", "t") == "".join("t" if c == "A" else c for c in s), "replace")
    ok(s.upper() == "".join(chr(ord(c) - 32) if "a" <= c <= "z" else c for c in s), "upper")
    ok(s[::-1] == "".join(reversed(s)), "reverse")
    ok(s.count("C") == sum(1 for c in s if c == "C"), "count")
    ok(s.zfill(6) == "0" * max(0, 6 - len(s)) + s, "zfill")
    ok(("A" * 3 in s) == any(s[p:p + 3] == "AAA" for p in range(len(s) - 2)), "in")
ok("ACGT"[-2:] == "GT" and "AC"[-5:] == "AC" and "ACGT"[2:9] == "GT", "slices clip")
# dict keeps insertion order; int / divmod / ** on Python ints are exact
d = {}
for k_ in (5, 1, 9):
    d[k_] = [k_]
ok(list(d) == [5, 1, 9] and list(d.items())[1] == (1, [1]), "dict order")
ok(divmod(10 ** 30 + 7, 4) == ((10 ** 30 + 7) // 4, 3) and 4 ** 31 == 2 ** 62, "int arithmetic")
# CPython's int <-> str digit limit (pyvc/calls.py INT_MAX_STR_DIGITS): int(str) and str(int) raise ValueError beyond 4300 digits
ok(sys.get_int_max_str_digits() == 4300, "sys.get_int_max_str_digits() == 4300")
for n_digits, want in ((4300, True), (4301, False)):
    try:
        int("1" * n_digits)
        got = True
    except ValueError:
        got = False
    ok(got == want, f"int of a {n_digits}-digit string")
    try:
        int("0" * n_digits)
        got = True
    except ValueError:
        got = False
    ok(got == want, f"int of {n_digits} zeros (leading zeros count)")
for e_, want in ((4299, True), (4300, False)):
    try:
        str(10 ** e_)
        got = True
    except ValueError:
        got = False
    ok(got == want, f"str(10**{e_})")
# numpy int64 scalar (op) Python int: the int is converted to int64 first (NEP 50): OverflowError exactly outside [-2**63, 2**63)
x = nsum(array([2, 3], dtype=int))
import operator
import warnings
warnings.simplefilter("ignore")
for opn in ("mod", "add", "sub", "mul", "floordiv", "truediv"):
    for other, want in ((2 ** 63 - 1, True), (2 ** 63, False), (-2 ** 63, True), (-2 ** 63 - 1, False), (4 ** 31, True), (4 ** 32, False)):
        try:
            getattr(operator, opn)(x, other)
            got = True
        except OverflowError:
            got = False
        want = want or opn == "truediv"          # true division goes through float: never OverflowError
        ok(got == want, f"int64 {opn} {other}")
        try:
            getattr(operator, opn)(other, x)
            got = True
        except OverflowError:
            got = False
        ok(got == want, f"{other} {opn} int64")
ok(bool(x < 2 ** 70) and not bool(x == 2 ** 70), "comparisons of an int64 scalar with a large Python int do not overflow")
ok(isinstance(int(x) % 4 ** 40, int), "int(int64) % large int is Python arithmetic")
# C19 library contracts: max / where(2-D) / unique / intersect1d / argmax / int(log(n)/log(4))
from numpy import max as nmax, unique, intersect1d, argmax, log
rng = random.Random(19)
for _ in range(300):
    rows = rng.randint(1, 6)
    m = array([[rng.randint(0, 3) for _ in range(4)] for _ in range(rows)])
    top = nmax(m)
    ok(all(m[r][c] <= top for r in range(rows) for c in range(4)) and any(m[r][c] == top for r in range(rows) for c in range(4)), "max of a matrix")
    u = unique(where(m == top)[0])
    ok(list(u) == [r for r in range(rows) if any(m[r][c] == top for c in range(4))], "unique(where(mask2d)[0])")
    a = sorted(rng.sample(range(10), rng.randint(0, 6)))
    b = sorted(rng.sample(range(10), rng.randint(0, 6)))
    w = intersect1d(array(a, dtype=int), array(b, dtype=int))
    ok(list(w) == sorted(set(a) & set(b)), "intersect1d")
    row = [rng.randint(0, 3) for _ in range(4)]
    ok(int(argmax(array(row))) == min(i for i in range(4) if row[i] == sorted(row)[-1]), "argmax: first maximum")
for k_ in range(0, 32):
    ok(int(log(4 ** k_) / log(4)) == k_, f"int(log(4**{k_}) / log(4)) == {k_}")
# CPython's iteration order of a set that is a block of four consecutive ints from a multiple of 4 (adjacency_matrix_to_accessor compares
# list(set(a) | set(b)) with the ascending list b): equal exactly when a is a subset of b
rng = random.Random(14)
blocks = list(range(0, 4096)) + [rng.randrange(0, 4 ** 11) for _ in range(3000)]
for m_ in blocks:
    b = [4 * m_ + j for j in range(4)]
    for mask_ in range(16):
        a = [b[j] for j in range(4) if mask_ >> j & 1]
        rng.shuffle(a)
        ok(list(set(a) | set(b)) == b, f"list(set({a}) | set({b})) == b")
    extra = rng.randrange(0, 4 ** 11)
    if extra not in b:
        ok(list(set([extra, b[1]]) | set(b)) != b, f"a foreign element makes the union differ ({extra}, block {m_})")
print(json.dumps({"checks": checks, "mismatches": bad[:10]}))
sys.exit(1 if bad else 0)
